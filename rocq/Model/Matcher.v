(* Model/Matcher.v — pattern.rs: is_boundary, the literal alternation scan of build_pattern /
   find_iter (regex `(?:v1|v2|...)` over escaped literals sorted longest first, bytes mode:
   leftmost position, first alternative that matches there, restart at the match end), and
   find_matches (line number and column of every match).  Executable, no proofs. *)
From RN Require Export Base.Bytes.

(* u8::is_ascii_whitespace: space, \t, \n, \x0C, \r *)
Definition is_ws (c : N) : bool := (c =? 32) || (c =? 9) || (c =? 10) || (c =? 12) || (c =? 13).
(* u8::is_ascii_punctuation *)
Definition is_punct (c : N) : bool :=
  ((33 <=? c) && (c <=? 47)) || ((58 <=? c) && (c <=? 64)) || ((91 <=? c) && (c <=? 96)) ||
  ((123 <=? c) && (c <=? 126)).

Definition nth_byte (s : bytes) (i : nat) : N := nth i s 0.

(* pattern.rs::is_boundary(bytes, start, end), 0 <= start <= end <= len *)
Definition is_boundary (s : bytes) (start stop : nat) : bool :=
  let m := firstn (stop - start) (skipn start s) in
  let spacey := existsb (N.eqb 32) m in
  let left :=
    match start with
    | O => true
    | S p =>
        let pb := nth_byte s p in
        if spacey then
          is_ws pb || (is_punct pb && negb (pb =? 45) && negb (pb =? 95)) ||
          (negb (is_alnum pb) && negb (pb =? 45) && negb (pb =? 95))
        else
          negb (is_alnum pb) || (is_upper (nth_byte s start) && is_lower pb)
    end in
  let right :=
    if Nat.leb (length s) stop then true
    else
      let nb := nth_byte s stop in
      if spacey then
        is_ws nb || (is_punct nb && negb (nb =? 45) && negb (nb =? 95)) ||
        (negb (is_alnum nb) && negb (nb =? 45) && negb (nb =? 95))
      else
        negb (is_alnum nb) ||
        (is_upper nb && match stop with O => false | S e => is_lower (nth_byte s e) end)
  in left && right.

(* stable sort of the variants by length, longest first (sort_by_key(Reverse(len))) *)
Fixpoint ins_len (v : bytes) (l : list bytes) : list bytes :=
  match l with
  | [] => [v]
  | x :: l' => if Nat.leb (length x) (length v) then v :: l else x :: ins_len v l'
  end.
Definition longest_first (vs : list bytes) : list bytes := fold_right ins_len [] vs.

(* first alternative that is a prefix of the remaining text *)
Definition first_alt (alts : list bytes) (rest : bytes) : option bytes :=
  find (fun v => negb (Nat.eqb (length v) 0) && is_prefix v rest) alts.

(* find_iter: scan left to right; at each position try the alternatives in order *)
Fixpoint scan (fuel : nat) (alts : list bytes) (pos : nat) (rest : bytes) : list (nat * nat * bytes) :=
  match fuel with
  | O => []
  | S fuel' =>
      match rest with
      | [] => []
      | _ :: rest' =>
          match first_alt alts rest with
          | Some v => (pos, pos + length v, v)%nat :: scan fuel' alts (pos + length v) (skipn (length v) rest)
          | None => scan fuel' alts (S pos) rest'
          end
      end
  end.
Definition find_iter (vs : list bytes) (c : bytes) : list (nat * nat * bytes) :=
  scan (S (length c)) (longest_first vs) 0 c.

(* line number (1-based) and byte column of an offset *)
Definition line_of (c : bytes) (off : nat) : nat := S (count_byte 10 (firstn off c)).
Fixpoint last_nl (s : bytes) (i : nat) (best : option nat) : option nat :=
  match s with
  | [] => best
  | x :: s' => last_nl s' (S i) (if x =? 10 then Some i else best)
  end.
Definition line_start (c : bytes) (off : nat) : nat :=
  match last_nl (firstn off c) 0 None with Some p => S p | None => O end.
Definition col_of (c : bytes) (off : nat) : nat := off - line_start c off.

Record mmatch := { m_line : nat; m_col : nat; m_start : nat; m_end : nat; m_text : bytes }.

Definition find_matches (vs : list bytes) (c : bytes) : list mmatch :=
  flat_map (fun t : nat * nat * bytes =>
              let '(a, b, v) := t in
              if is_boundary c a b then
                [{| m_line := line_of c a; m_col := col_of c a; m_start := a; m_end := b; m_text := v |}]
              else []) (find_iter vs c).
