(* Model/SimplePlan.v — the SECOND planner of renamify, the one behind `renamify replace`:
   scanner.rs::create_simple_plan / process_file_content, LITERAL mode (`--no-regex`, is_regex = false).
   Executable, no proofs (Proofs/SimplePlanP.v).

   What the Rust code does, line by line (scanner.rs 1274-1403, 1503-1640):
     create_simple_plan   an empty pattern is an error (1514); every regular file of the walk goes through
                          process_file_content; matches are concatenated in walk order; stats: total_matches =
                          matches.len(), matches_by_variant = {pattern: matches.len()}, files_with_matches = number of
                          files whose has_matches flag came back true, files_scanned = number of regular files.
     process_file_content fs::read; `!binary_as_text && is_binary(bytes)` => no matches (1290);
                          content = String::from_utf8_lossy(bytes)  (1295)  -- ALL offsets below are offsets into this
                          DECODED text, not into the file: they are file offsets only when the file is valid UTF-8
                          (then the decoding is the identity: Proofs/SimplePlanP.v lossy_of_utf8);
                          lines = content.lines()  (split at '\n', the '\n' and ONE '\r' before it are dropped; a lone
                          '\r' is not a line break; a final line without '\n' keeps a trailing '\r');
                          line_starts = running sum of the lengths of content.split_inclusive('\n')  (1298-1303);
                          per line (0-based line_num): line_start = line_starts.get(line_num).unwrap_or(0);
                          the exclude regex is asked about the line WITHOUT its terminator (1311) -- an oracle here;
                          literal loop (1366-1398): `while let Some(pos) = line[search_start..].find(pattern)`,
                          start = search_start + pos, end = start + pattern.len(), search_start = end: leftmost
                          occurrence, then restart AFTER it -- overlapping occurrences are not reported ("aaa" / "aa"
                          gives one match); a match never spans a line break because each line is searched alone;
                          hunk: line = line_num + 1, byte_offset = start (column in the line), char_offset =
                          byte_offset_to_char_offset(line, start) (number of chars that begin before the column),
                          variant = content = pattern, replace = replacement, start/end = line_start + start/end,
                          line_before = the line (no terminator), line_after = line[..start] + replacement + line[end..].
   A UTF-8 BOM is not treated specially: it is part of line 1 (3 bytes, 1 char) and only makes the file "not binary".
   The empty pattern never reaches the loop (it would not terminate: find("") = Some(0), end = start); the fuel of
   [literal_starts] is only there for Coq's termination checker, S (length line) is enough for a non-empty pattern
   (Proofs/SimplePlanP.v literal_starts_complete). *)
From RN Require Export Base.Bytes Model.Edits Model.Matcher Model.Hunks.
From RN Require Import Model.ApplyModel.   (* utf8_ok: std::str::from_utf8(..).is_ok() *)
Open Scope N_scope.

(* ---- content_inspector::inspect(content) == BINARY (content_inspector 0.2.4): BOMs first (a BOM makes the
   buffer "text" even when NUL bytes follow, e.g. UTF-16), then a NUL among the first 1024 bytes, then two magic
   numbers ---- *)
Definition is_binary (c : bytes) : bool :=
  if is_prefix [239; 187; 191] c then false
  else if is_prefix [0; 0; 254; 255] c then false
  else if is_prefix [255; 254; 0; 0] c then false
  else if is_prefix [254; 255] c then false
  else if is_prefix [255; 254] c then false
  else existsb (N.eqb 0) (firstn 1024 c) || is_prefix [37; 80; 68; 70] c || is_prefix [137; 80; 78; 71] c.

(* ---- String::from_utf8_lossy: every maximal ill-formed prefix of a code unit sequence (core::str::Utf8Chunks)
   becomes one U+FFFD = EF BF BD ---- *)
Definition REPL : bytes := [239; 191; 189].
Definition second3_ok (c c1 : N) : bool :=
  is_cont c1 && (if c =? 224 then 160 <=? c1 else true) && (if c =? 237 then c1 <=? 159 else true).
Definition second4_ok (c c1 : N) : bool :=
  is_cont c1 && (if c =? 240 then 144 <=? c1 else true) && (if c =? 244 then c1 <=? 143 else true).

Fixpoint lossy (s : bytes) : bytes :=
  match s with
  | [] => []
  | c :: s1 =>
      if c <? 128 then c :: lossy s1
      else if (194 <=? c) && (c <=? 223) then
        match s1 with
        | c1 :: s2 => if is_cont c1 then c :: c1 :: lossy s2 else REPL ++ lossy s1
        | [] => REPL
        end
      else if (224 <=? c) && (c <=? 239) then
        match s1 with
        | c1 :: s2 =>
            if second3_ok c c1 then
              match s2 with
              | c2 :: s3 => if is_cont c2 then c :: c1 :: c2 :: lossy s3 else REPL ++ lossy s2
              | [] => REPL
              end
            else REPL ++ lossy s1
        | [] => REPL
        end
      else if (240 <=? c) && (c <=? 244) then
        match s1 with
        | c1 :: s2 =>
            if second4_ok c c1 then
              match s2 with
              | c2 :: s3 =>
                  if is_cont c2 then
                    match s3 with
                    | c3 :: s4 => if is_cont c3 then c :: c1 :: c2 :: c3 :: lossy s4 else REPL ++ lossy s3
                    | [] => REPL
                    end
                  else REPL ++ lossy s2
              | [] => REPL
              end
            else REPL ++ lossy s1
        | [] => REPL
        end
      else REPL ++ lossy s1
  end.

(* ---- str::split_inclusive('\n'): the raw lines, terminator kept; nothing for the empty text ---- *)
Fixpoint split_incl (s : bytes) : list bytes :=
  match s with
  | [] => []
  | x :: s' =>
      if x =? 10 then [x] :: split_incl s'
      else match split_incl s' with
           | [] => [[x]]
           | l :: ls => (x :: l) :: ls
           end
  end.

(* str::lines(): split_inclusive('\n'), then strip_suffix('\n') and, only if that succeeded, strip_suffix('\r')
   (= Hunks.strip_eol) *)
Definition str_lines (s : bytes) : list bytes := map strip_eol (split_incl s).

(* lines 1298-1303: `line_starts.push(offset); offset += raw_line.len()` *)
Fixpoint line_starts_from (offset : nat) (raws : list bytes) : list nat :=
  match raws with
  | [] => []
  | raw :: rest => offset :: line_starts_from (offset + length raw) rest
  end.

(* ---- str::find(&str): byte index of the leftmost occurrence (the empty pattern is found at 0) ---- *)
Fixpoint find_sub (p s : bytes) : option nat :=
  match s with
  | [] => if is_prefix p [] then Some O else None
  | _ :: s' => if is_prefix p s then Some O else option_map S (find_sub p s')
  end.

(* lines 1366-1398: the start columns of the literal loop on one line *)
Fixpoint literal_starts (fuel : nat) (p line : bytes) (search_start : nat) : list nat :=
  match fuel with
  | O => []
  | S fuel' =>
      match find_sub p (skipn search_start line) with
      | None => []
      | Some pos =>
          let start := (search_start + pos)%nat in
          start :: literal_starts fuel' p line (start + length p)
      end
  end.

Section SimplePlan.
Variable line_excluded : bytes -> bool.   (* exclude_lines_regex.is_match(line); [fun _ => false] when the option is absent *)
Variable pattern replacement : bytes.

(* lines 1377-1395 *)
Definition simple_hunk (line_num line_start : nat) (line : bytes) (start : nat) : fhunk :=
  let stop := (start + length pattern)%nat in
  {| fh_line := S line_num;
     fh_col := start;
     fh_char := char_count (firstn start line);
     fh_start := (line_start + start)%nat;
     fh_end := (line_start + stop)%nat;
     fh_content := pattern;
     fh_replace := replacement;
     fh_before := Some line;
     fh_after := Some (firstn start line ++ replacement ++ skipn stop line) |}.

(* `for (line_num, line) in lines.iter().enumerate()` *)
Fixpoint lines_loop (line_starts : list nat) (line_num : nat) (lines : list bytes) : list fhunk :=
  match lines with
  | [] => []
  | line :: rest =>
      let line_start := nth line_num line_starts O in       (* .get(line_num).copied().unwrap_or(0) *)
      (if line_excluded line then []
       else map (simple_hunk line_num line_start line) (literal_starts (S (length line)) pattern line 0))
      ++ lines_loop line_starts (S line_num) rest
  end.

(* the loop on the decoded text *)
Definition scan_text (t : bytes) : list fhunk :=
  lines_loop (line_starts_from 0 (split_incl t)) 0 (str_lines t).

(* process_file_content(path, ...) -> (file_matches, has_matches); [bat] = options.binary_as_text() (-uuu).
   has_matches is set exactly where a hunk is pushed. *)
(* THE CODE BEFORE repo fix 0904d0d decoded the file with String::from_utf8_lossy and scanned the decoded copy: for a file that
   is not valid UTF-8 the recorded offsets were offsets into that copy, not into the file (SimplePlanP.SimpleWitness.*_refuted,
   reproduced on the real planner).  Kept because the general theorems are proved for it and the current function is an
   instance; [lossy] is the identity on valid text (lossy_of_utf8). *)
Definition process_file_content_lossy (bat : bool) (c : bytes) : list fhunk * bool :=
  if negb bat && is_binary c then ([], false)
  else let hs := scan_text (lossy c) in (hs, match hs with [] => false | _ => true end).

(* THE CURRENT CODE: a file that is not valid UTF-8 is left out, like a binary file (`let Ok(content) = std::str::from_utf8(..)
   else { return Ok((file_matches, false)) }`); otherwise the text itself is scanned *)
Definition process_file_content (bat : bool) (c : bytes) : list fhunk * bool :=
  if negb bat && is_binary c then ([], false)
  else if negb (utf8_ok c) then ([], false)
  else let hs := scan_text c in (hs, match hs with [] => false | _ => true end).

Record sstats := { st_files_scanned : nat; st_total : nat; st_by_variant : list (bytes * nat); st_files_with : nat }.

(* create_simple_plan on the regular files of the walk (contents, in walk order): the hunks per file and the stats;
   None = `Err("invalid pattern: the search pattern is empty")` *)
Definition create_simple_plan (bat : bool) (files : list bytes) : option (list (list fhunk) * sstats) :=
  match pattern with
  | [] => None
  | _ =>
      let rs := map (process_file_content bat) files in
      let all_matches := concat (map fst rs) in
      Some (map fst rs,
            {| st_files_scanned := length files;
               st_total := length all_matches;
               st_by_variant := [(pattern, length all_matches)];
               st_files_with := length (filter snd rs) |})
  end.

End SimplePlan.
