(* Model/Walker.v — which entries the walker hands to the planners, from the configuration
   regenerated from lib.rs (Gen/GenWalker.v).  The glob engines are oracles (Section variables):
   [ign file_name dir rel] = the ignore file named file_name that sits in directory dir ignores
   the entry at rel (gitignore semantics, the `ignore` crate); [glob pats rel] = globset match.
   Executable once the oracles are supplied; no proofs. *)
From Coq Require Import Strings.String.
From RN Require Export Base.Bytes Base.Str Model.Fs Model.WalkerDef.
From RN Require Import Gen.GenWalker.

Definition has_component (n : name) (p : path) : bool := existsb (beq n) p.

(* the ignore file kinds the documentation talks about *)
Inductive ikind := KGitignore | KIgnore | KRgignore | KRnignore.
Definition ikind_name (k : ikind) : bytes :=
  match k with KGitignore => bs ".gitignore" | KIgnore => bs ".ignore"
             | KRgignore => bs ".rgignore" | KRnignore => bs ".rnignore" end.

(* is an ignore file of this kind consulted at this level? *)
Definition consulted (c : wcfg) (k : ikind) : bool :=
  match k with
  | KIgnore => w_ignore c
  | KGitignore => w_git_ignore c || existsb (beq (ikind_name k)) (w_custom c)
  | _ => existsb (beq (ikind_name k)) (w_custom c)
  end.

(* the documented table (README "Ignore files" / filtering.mdx / CLI help), transcribed once *)
Definition documented (level : nat) (k : ikind) : bool :=
  match level, k with
  | 0%nat, _ => true
  | 1%nat, KGitignore => false
  | 1%nat, _ => true
  | _, _ => false
  end.

Section Scope.
  Variable ign : bytes -> path -> path -> bool.   (* ignore-file name, its directory, entry *)
  Variable glob : list bytes -> path -> bool.     (* include / exclude glob sets *)
  Variable dirs_of : path -> list path.           (* the ancestor directories of an entry, root first *)

  Definition ignored_by_files (c : wcfg) (p : path) : bool :=
    existsb (fun k => consulted c k &&
                      existsb (fun d => ign (ikind_name k) d p) (dirs_of p))
            [KGitignore; KIgnore; KRgignore; KRnignore].

  (* an entry reaches the planners iff no component is excluded by filter_entry, no consulted ignore
     file ignores it, it passes the include set (when given) and is not in the exclude set *)
  Definition in_scope (level : nat) (includes excludes : list bytes) (p : path) : bool :=
    let c := gen_walker level in
    negb (existsb (fun n => has_component n p) (w_excluded c)) &&
    negb (ignored_by_files c p) &&
    (match includes with [] => true | _ => glob includes p end) &&
    negb (match excludes with [] => false | _ => glob excludes p end).

  (* content of a file is scanned iff it is in scope and (not binary or level >= binary threshold) *)
  Definition content_scanned (level : nat) (includes excludes : list bytes) (p : path) (binary : bool) : bool :=
    in_scope level includes excludes p && (negb binary || Nat.leb gen_binary_as_text_level level).
End Scope.
