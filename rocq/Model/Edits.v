(* Model/Edits.v — restatement of apply.rs::apply_content_edits_with_content (the splice loop)
   and of the reference "spec" splice the properties talk about.  Executable, no proofs. *)
From RN Require Export Base.Bytes.

Inductive res (A : Type) : Type :=
| Ok (a : A)
| Mismatch            (* "Content mismatch in …": anyhow error, stale plan *)
| Panic.              (* Rust would panic: replace_range out of range / not a char boundary *)
Arguments Ok {A} a.
Arguments Mismatch {A}.
Arguments Panic {A}.

Record edit := { e_start : nat; e_stop : nat; e_old : bytes; e_new : bytes }.

(* UTF-8 continuation byte 10xxxxxx *)
Definition is_cont (c : N) : bool := (128 <=? c) && (c <? 192).

(* str::is_char_boundary *)
Definition char_boundary (s : bytes) (i : nat) : bool :=
  match nth_error s i with
  | Some c => negb (is_cont c)
  | None => Nat.eqb i (length s)
  end.

(* &s[a..b] on a str: panics unless a <= b <= len and both are char boundaries *)
Definition str_slice (s : bytes) (a b : nat) : option bytes :=
  if (Nat.leb a b && Nat.leb b (length s) && char_boundary s a && char_boundary s b)%bool
  then Some (firstn (b - a) (skipn a s)) else None.

(* String::replace_range(a..b, new): same panics *)
Definition replace_range (s : bytes) (a b : nat) (new : bytes) : option bytes :=
  if (Nat.leb a b && Nat.leb b (length s) && char_boundary s a && char_boundary s b)%bool
  then Some (firstn a s ++ new ++ skipn b s) else None.

(* the loop body of `for (before, after, start, end) in replacements.iter().rev()`:
   validate against the ORIGINAL content, splice into the working copy *)
Fixpoint apply_rev_aux (orig : bytes) (res_ : list edit) (acc : bytes) : res bytes :=
  match res_ with
  | [] => Ok acc
  | e :: rest =>
      match str_slice orig (e_start e) (e_stop e) with
      | None => Mismatch     (* original_content.get(start..end) is None: "Content mismatch ... outside the file" *)
      | Some actual =>
          if beq actual (e_old e) then
            match replace_range acc (e_start e) (e_stop e) (e_new e) with
            | None => Panic
            | Some acc' => apply_rev_aux orig rest acc'
            end
          else Mismatch
      end
  end.

(* the loop alone, on the edits in the order given *)
Definition apply_edits_pos (orig : bytes) (es : list edit) : res bytes :=
  apply_rev_aux orig (rev es) orig.

(* `ordered.sort_by_key(|r| r.2)`: stable sort by start offset *)
Fixpoint ins_edit (e : edit) (l : list edit) : list edit :=
  match l with
  | [] => [e]
  | x :: l' => if Nat.leb (e_start e) (e_start x) then e :: x :: l' else x :: ins_edit e l'
  end.
Definition sort_edits (es : list edit) : list edit := fold_right ins_edit [] es.

(* the pre-check loop: `if *start < pos || *end < *start { return Err(..) }; pos = *end` *)
Fixpoint ordered_from (pos : nat) (es : list edit) : bool :=
  match es with
  | [] => true
  | e :: es' => Nat.leb pos (e_start e) && Nat.leb (e_start e) (e_stop e) && ordered_from (e_stop e) es'
  end.

(* apply_content_edits_with_content: sort, reject overlapping / malformed edits, then splice *)
Definition apply_edits_rev (orig : bytes) (es : list edit) : res bytes :=
  let s := sort_edits es in
  if ordered_from 0 s then apply_edits_pos orig s else Mismatch.

(* The reference meaning of "substitute each planned match at its recorded position":
   left to right, [pos] is how much of the original has been consumed, [rest = skipn pos orig]. *)
Fixpoint spec_from (pos : nat) (rest : bytes) (es : list edit) : bytes :=
  match es with
  | [] => rest
  | e :: es' =>
      firstn (e_start e - pos) rest ++ e_new e ++
      spec_from (e_stop e) (skipn (e_stop e - pos) rest) es'
  end.

Definition spec_splice (orig : bytes) (es : list edit) : bytes := spec_from 0 orig es.

(* well-formed edit list for [orig]: ascending, non-overlapping, in range, on char boundaries,
   recorded text equals the bytes there, replacement text does not begin with a continuation byte *)
Definition head_ok (s : bytes) : bool :=
  match s with [] => true | c :: _ => negb (is_cont c) end.

Fixpoint wf_edits_from (orig : bytes) (pos : nat) (es : list edit) : bool :=
  match es with
  | [] => true
  | e :: es' =>
      (Nat.leb pos (e_start e) &&
       match str_slice orig (e_start e) (e_stop e) with
       | Some actual => beq actual (e_old e)
       | None => false
       end &&
       head_ok (e_new e) &&
       wf_edits_from orig (e_stop e) es')%bool
  end.

Definition wf_edits (orig : bytes) (es : list edit) : bool := wf_edits_from orig 0 es.
