(* Model/CaseSpec.v — side conditions under which the case-algebra laws are stated. *)
From RN Require Import Base.Bytes Model.StyleDef Model.CaseModel.

(* acronym table entries: at least two bytes, upper-case letters and digits only
   (AcronymSet::add upper-cases; the default table satisfies this, checked by computation) *)
Definition wf_acr (acr : acr_tab) : bool :=
  forallb (fun a => Nat.leb 2 (length a) && forallb (fun c => is_upper c || is_digit c) a) acr.

(* the one look-ahead that can split an all-caps word: the longest table entry that is a proper
   case-insensitive prefix of the word is followed by something that again starts with an entry
   (IDIP = ID + IP) *)
Definition acr_inert (acr : acr_tab) (w : bytes) : bool :=
  match find_longest_match acr (upper w) with
  | None => true
  | Some a =>
      if Nat.ltb (length a) (length w) then
        match find_longest_match acr (skipn (length a) (upper w)) with
        | None => true
        | Some _ => false
        end
      else true
  end.

(* a neutral word: three or more lower-case letters, not itself an acronym, inert *)
Definition neutral (acr : acr_tab) (w : bytes) : bool :=
  Nat.leb 3 (length w) && forallb is_lower w && negb (is_acronym acr (upper w)) && acr_inert acr w.

Definition all_neutral (acr : acr_tab) (ws : list bytes) : bool := forallb (neutral acr) ws.
