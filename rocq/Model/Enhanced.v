(* Model/Enhanced.v — restatement of compound_scanner.rs (renamify-core/src/compound_scanner.rs):
   IdentifierExtractor::new / find_all (lines 19-77) and find_enhanced_matches (lines 114-380),
   in source order.  Executable Gallina only, no proofs (they are in Proofs/EnhancedP*.v).

   Domain: ASCII content.  The regex is compiled by regex::bytes with Unicode mode on; on ASCII
   bytes `\b` is the word boundary of [0-9A-Za-z_], `\s` is \t \n \v \f \r and space, and the
   classes are the literal ASCII ranges.  Bytes >= 128 are treated here as "not a word byte, not in
   any class" (for valid UTF-8 the real `\b` may differ: Unicode letters are word characters); the
   differential test only feeds ASCII.  String::from_utf8_lossy is the identity on ASCII.
   The RENAMIFY_DEBUG_IDENTIFIERS printing is dropped.  The `file` field of Match is dropped. *)
From RN Require Import Base.Bytes Model.StyleDef Model.CaseModel Model.Matcher Model.Compound.
From RN Require Import Gen.GenAcronyms.
Open Scope N_scope.

(* ================================================================== 1. IdentifierExtractor *)

(* `\w` restricted to ASCII *)
Definition is_word (c : N) : bool := is_alnum c || (c =? 95).
(* `\s` restricted to ASCII: \t \n \v \f \r and space *)
Definition is_space (c : N) : bool := (c =? 32) || ((9 <=? c) && (c <=? 13)).
(* [a-zA-Z_] *)
Definition is_id_start (c : N) : bool := is_alpha c || (c =? 95).
(* [a-zA-Z0-9_\-\.] *)
Definition is_id_char (c : N) : bool := is_alnum c || (c =? 95) || (c =? 45) || (c =? 46).

Definition is_word_o (o : option N) : bool := match o with Some c => is_word c | None => false end.

(* `\b` between two (optional: text edges) bytes *)
Definition wb (prev next : option N) : bool := xorb (is_word_o prev) (is_word_o next).

(* `\b` after the first [e] bytes of [s], e >= 1 ([s] starts at the match start, so the byte
   before offset e belongs to the match) *)
Definition wb_at (s : bytes) (e : nat) : bool := wb (nth_error s (e - 1)) (nth_error s e).

(* length of the longest prefix whose bytes satisfy p: a greedy `[class]*` *)
Fixpoint run (p : N -> bool) (s : bytes) : nat :=
  match s with
  | x :: s' => if p x then S (run p s') else O
  | [] => O
  end.

(* Greedy quantifier followed by `\b`, with backtracking: the quantifier first takes everything it
   can ([n] bytes of the match in total), then gives bytes back one at a time until `\b` holds.
   [None]: every candidate length down to 1 was refused. *)
Fixpoint backtrack (s : bytes) (n : nat) : option nat :=
  match n with
  | O => None
  | S k => if wb_at s n then Some n else backtrack s k
  end.

(* IDENT\b at the head of s:  [a-zA-Z_][a-zA-Z0-9_\-\.]*\b *)
Definition ident_match (s : bytes) : option nat :=
  match s with
  | c :: r => if is_id_start c then backtrack s (S (run is_id_char r)) else None
  | [] => None
  end.

(* one Title word [A-Z][a-z]+ at the head of s, the lower-case run taken greedily *)
Definition title_word (s : bytes) : option nat :=
  match s with
  | c :: r =>
      if is_upper c then
        match run is_lower r with O => None | S n => Some (S (S n)) end
      else None
  | [] => None
  end.

(* TITLE = [A-Z][a-z]+(?:\s+[A-Z][a-z]+)*.  Inside TITLE the greedy runs are forced: after a
   shorter `[a-z]+` the next byte is a lower-case letter, which is neither `\s`, nor `[A-Z]`, nor a
   place where `\b` holds; after a shorter `\s+` the next byte is white space, not `[A-Z]`.  So the
   only backtracking points that can lead to a match are the iterations of the `(...)*` group, and
   the candidates are the ends of the 1st, 2nd, ... word.  [title_ends fuel off s] lists them in
   increasing order; [off] = bytes already consumed, [s] = what follows them.
   Fuel: every iteration consumes at least two bytes, so [length s] iterations are never used up;
   running out of fuel only truncates the list, and is unreachable from [title_match]. *)
Fixpoint title_ends (fuel : nat) (off : nat) (s : bytes) : list nat :=
  match fuel with
  | O => []
  | S fuel' =>
      let k := run is_space s in
      match k with
      | O => []
      | S _ =>
          match title_word (skipn k s) with
          | Some w => (off + k + w)%nat :: title_ends fuel' (off + k + w)%nat (skipn (k + w) s)
          | None => []
          end
      end
  end.

(* TITLE\b at the head of s: the group is greedy, so the longest chain is tried first and
   iterations are given back one at a time until `\b` holds *)
Definition title_match (s : bytes) : option nat :=
  match title_word s with
  | Some w => find (wb_at s) (rev (w :: title_ends (length s) w (skipn w s)))
  | None => None
  end.

(* the whole regex anchored at one start position: `\b(?:TITLE|IDENT)\b` or `\bIDENT\b`.
   [prev] is the byte before the start position (None at offset 0), [s] the text from there on.
   Leftmost-first: TITLE with all its backtracking is tried before IDENT. *)
Definition match_at (title : bool) (prev : option N) (s : bytes) : option nat :=
  if wb prev (nth_error s 0) then
    match (if title then title_match s else None) with
    | Some n => Some n
    | None => ident_match s
    end
  else None.

(* Regex::find_iter: leftmost start position with a match, then resume at the match end (a match
   is never empty, so no empty-match stepping rule is involved).  Written structurally: [skip] is
   the number of bytes of the current match still to be stepped over; [prev] the byte before [pos];
   [s] the text from [pos]. *)
Fixpoint rscan (title : bool) (prev : option N) (skip pos : nat) (s : bytes)
  : list (nat * nat * bytes) :=
  match s with
  | [] => []
  | x :: s' =>
      match skip with
      | S k => rscan title (Some x) k (S pos) s'
      | O =>
          match match_at title prev s with
          | Some n => (pos, pos + n, firstn n s)%nat :: rscan title (Some x) (n - 1) (S pos) s'
          | None => rscan title (Some x) O (S pos) s'
          end
      end
  end.

Definition regex_find_iter (title : bool) (c : bytes) : list (nat * nat * bytes) :=
  rscan title None 0 0 c.

(* the dot-splitting loop of find_all (lines 53-70): parts = identifier.split('.'), current_pos
   starts at m.start() and advances by part.len() + 1 after every part, empty parts are not pushed *)
Fixpoint place_parts (pos : nat) (parts : list bytes) : list (nat * nat * bytes) :=
  match parts with
  | [] => []
  | p :: ps =>
      (match p with [] => [] | _ :: _ => [(pos, pos + length p, p)%nat] end)
      ++ place_parts (pos + length p + 1)%nat ps
  end.

(* what the extractor keeps from IdentifierExtractor::new *)
Definition ext_title (styles : list style) : bool := existsb (style_eqb Title) styles.
Definition ext_split (styles : list style) : bool := negb (existsb (style_eqb Dot) styles).

(* IdentifierExtractor::find_all *)
Definition find_all_with (title split : bool) (c : bytes) : list (nat * nat * bytes) :=
  flat_map (fun t : nat * nat * bytes =>
              let '(a, b, id) := t in
              if contains 46 id && split then place_parts a (split_on 46 id) else [(a, b, id)])
           (regex_find_iter title c).

Definition find_all (styles : list style) (c : bytes) : list (nat * nat * bytes) :=
  find_all_with (ext_title styles) (ext_split styles) c.

(* ================================================================== 2. find_enhanced_matches *)

Record ematch := mk_ematch {
  e_line : nat; e_col : nat; e_start : nat; e_end : nat;
  e_variant : bytes;      (* exact: the matched text; compound: full_identifier *)
  e_text : bytes          (* exact: the matched text; compound: the replacement *)
}.

(* lines 131-137 *)
Definition is_single_word_search (search : bytes) : bool :=
  negb (contains 95 search) && negb (contains 45 search) && negb (contains 46 search)
  && negb (contains 32 search) && Nat.leb (length (tokens gen_acronyms search)) 1.

Definition skip_exact_match (search : bytes) (styles : list style) : bool :=
  is_single_word_search search && Nat.eqb (length styles) 1.

(* lines 140-176: build_pattern + find_iter + is_boundary = Matcher.find_matches on the keys.
   identify_variant(match_text) is the leftmost-longest key inside the matched text; the matched
   text is itself a key, so variant = text.
   One case Matcher.find_matches does not cover: when no key is non-empty, build_pattern compiles
   `$^`, which matches the empty string at offset 0 of an EMPTY content; is_boundary(_,0,0) holds
   there, and identify_variant gives None -> "".  So an empty file with a degenerate table yields
   one empty match. *)
Definition exact_pass (keys : list bytes) (c : bytes) : list mmatch :=
  if forallb (fun k => Nat.eqb (length k) 0) keys && Nat.eqb (length c) 0 then
    [{| m_line := 1; m_col := 0; m_start := 0; m_end := 0; m_text := [] |}]
  else find_matches keys c.

Definition ematch_of_exact (m : mmatch) : ematch :=
  mk_ematch (m_line m) (m_col m) (m_start m) (m_end m) (m_text m) (m_text m).

(* BTreeSet<usize>::insert on the ascending duplicate-free list of its elements *)
Fixpoint set_insert (n : nat) (l : list nat) : list nat :=
  match l with
  | [] => [n]
  | x :: l' => if Nat.ltb n x then n :: l else if Nat.eqb n x then l else x :: set_insert n l'
  end.

(* lines 184-195 *)
Definition candidate_lines (ms : list ematch) (extra : option (list nat)) : list nat :=
  let s1 :=
    fold_left (fun s m =>
                 let s := set_insert (e_line m) s in
                 let s := if Nat.ltb 1 (e_line m) then set_insert (e_line m - 1) s else s in
                 set_insert (e_line m + 1) s) ms [] in
  match extra with
  | Some ls => fold_left (fun s n => set_insert n s) ls s1
  | None => s1
  end.

(* lines 200-205: start offsets of bstr's lines_with_terminator(): offset 0 when the content is
   not empty, and every offset that follows a '\n' and is not the end of the content *)
Fixpoint line_offsets_from (pos : nat) (at_start : bool) (c : bytes) : list nat :=
  match c with
  | [] => []
  | x :: c' => (if at_start then [pos] else []) ++ line_offsets_from (S pos) (x =? 10) c'
  end.
Definition line_offsets (c : bytes) : list nat := line_offsets_from 0 true c.

(* lines 207-232 *)
Definition scoped_identifiers (styles : list style) (c : bytes) (lines : list nat)
  : list (nat * nat * bytes) :=
  let offs := line_offsets c in
  flat_map (fun line_idx : nat =>
              let idx := (line_idx - 1)%nat in                     (* saturating_sub(1) *)
              match nth_error offs idx with
              | None => []                                         (* idx >= line_offsets.len() *)
              | Some start =>
                  let stop := match nth_error offs (S idx) with
                              | Some e => e | None => length c end in
                  map (fun t : nat * nat * bytes =>
                         let '(a, b, id) := t in ((start + a)%nat, (start + b)%nat, id))
                      (find_all styles (firstn (stop - start) (skipn start c)))
              end) lines.

(* lines 181-234 *)
Definition identifiers_for (styles : list style) (c : bytes) (exact : list ematch)
           (extra : option (list nat)) : list (nat * nat * bytes) :=
  match exact with
  | [] => find_all styles c                                        (* processed_ranges.is_empty() *)
  | _ :: _ =>
      match candidate_lines exact extra with
      | [] => find_all styles c
      | ls => scoped_identifiers styles c ls
      end
  end.

(* lines 238-243 *)
Definition should_skip (pr : list (nat * nat)) (s e : nat) : bool :=
  existsb (fun r : nat * nat =>
             let '(ps, pe) := r in
             (Nat.eqb ps s && Nat.eqb pe e) || (Nat.leb ps s && Nat.leb e pe)) pr.

(* lines 236-277 *)
Definition compound_pass (c search replace : bytes) (styles : list style) (pr : list (nat * nat))
           (ids : list (nat * nat * bytes)) : list ematch :=
  flat_map (fun t : nat * nat * bytes =>
              let '(s, e, id) := t in
              if should_skip pr s e then []
              else match find_compound_variants id search replace styles with
                   | [] => []
                   | cm :: _ => [mk_ematch (line_of c s) (col_of c s) s e (cm_full cm) (cm_repl cm)]
                   end) ids.

(* line 281: sort_by_key(|m| (m.line, m.column)) — a stable sort *)
Definition key_le (a b : ematch) : bool :=
  Nat.ltb (e_line a) (e_line b) || (Nat.eqb (e_line a) (e_line b) && Nat.leb (e_col a) (e_col b)).
Fixpoint ins_key (m : ematch) (l : list ematch) : list ematch :=
  match l with
  | [] => [m]
  | x :: l' => if key_le m x then m :: l else x :: ins_key m l'
  end.
Definition sort_key (l : list ematch) : list ematch := fold_right ins_key [] l.

(* lines 287-377 *)
Definition is_exact (pr : list (nat * nat)) (m : ematch) : bool :=
  existsb (fun r : nat * nat => let '(s, e) := r in Nat.eqb s (e_start m) && Nat.eqb e (e_end m)) pr.

Definition overlaps (cand sel : ematch) : bool :=
  Nat.ltb (e_start cand) (e_end sel) && Nat.ltb (e_start sel) (e_end cand).

(* the body of the inner loop for the first overlapping selected match: should_replace *)
Definition should_replace (pr : list (nat * nat)) (cand sel : ematch) : bool :=
  let cand_exact := is_exact pr cand in
  let sel_exact := is_exact pr sel in
  let cl := (e_end cand - e_start cand)%nat in
  let sl := (e_end sel - e_start sel)%nat in
  let same_start := Nat.eqb (e_start cand) (e_start sel) in
  let cand_contains_sel :=
    Nat.leb (e_start cand) (e_start sel) && Nat.leb (e_end sel) (e_end cand) && Nat.ltb sl cl in
  let sel_contains_cand :=
    Nat.leb (e_start sel) (e_start cand) && Nat.leb (e_end cand) (e_end sel) && Nat.ltb cl sl in
  if sel_exact && negb cand_exact then
    let sel_space := contains 32 (e_variant sel) in
    let cand_space := contains 32 (e_variant cand) in
    if cand_contains_sel then
      if sel_space then negb cand_space && same_start else true
    else false
  else if negb sel_exact && cand_exact then
    let cand_space := contains 32 (e_variant cand) in
    if sel_contains_cand then cand_space && negb same_start else true
  else Nat.ltb sl cl.

(* the inner `for (idx, selected)` loop: stops (break) at the FIRST overlapping selected match and
   either overwrites it in place or leaves the list unchanged *)
Fixpoint resolve_first (pr : list (nat * nat)) (cand : ematch) (final : list ematch) : list ematch :=
  match final with
  | [] => []
  | sel :: rest =>
      if overlaps cand sel then
        (if should_replace pr cand sel then cand else sel) :: rest
      else sel :: resolve_first pr cand rest
  end.

Definition resolve_step (pr : list (nat * nat)) (final : list ematch) (cand : ematch) : list ematch :=
  if existsb (overlaps cand) final then resolve_first pr cand final else final ++ [cand].

Definition resolve (pr : list (nat * nat)) (all : list ematch) : list ematch :=
  fold_left (resolve_step pr) all [].

(* the pieces of find_enhanced_matches, exposed for the theorems *)
Definition exact_matches (keys : list bytes) (search : bytes) (styles : list style) (c : bytes)
  : list ematch :=
  if skip_exact_match search styles then [] else map ematch_of_exact (exact_pass keys c).

Definition ranges_of (ms : list ematch) : list (nat * nat) :=
  map (fun m => (e_start m, e_end m)) ms.

Definition all_candidates (c search replace : bytes) (keys : list bytes) (styles : list style)
           (extra : option (list nat)) : list ematch :=
  let exact := exact_matches keys search styles c in
  let pr := ranges_of exact in
  exact ++ compound_pass c search replace styles pr (identifiers_for styles c exact extra).

(* find_enhanced_matches(content, _, search, replace, variant_map, styles, extractor, additional_lines)
   with extractor = IdentifierExtractor::new(styles) and keys = variant_map.keys() *)
Definition find_enhanced_matches (c search replace : bytes) (keys : list bytes) (styles : list style)
           (extra : option (list nat)) : list ematch :=
  let exact := exact_matches keys search styles c in
  resolve (ranges_of exact) (sort_key (all_candidates c search replace keys styles extra)).
