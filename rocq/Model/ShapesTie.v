(* Model/ShapesTie.v — C19: (1) the plan record of Model/Serde.v as a generic value, so that the generic
   encoder [enc] over the translated type tables can be run on the same plans as serde_json and as the
   hand-written encoder of C17; (2) the shapes the VS Code extension reads from the documents of the CLI
   (renamify-vscode/extension/src/cliService.ts), written by hand.  Executable, no proofs. *)
From Coq Require Import Strings.String.
From RN Require Export Base.Bytes Base.Str Model.SerdeAttr Model.Serde Model.Shapes.
From RN Require Import Gen.GenShapes.

Definition vopt_s (o : option bytes) : rval := VO (match o with Some s => Some (VS s) | None => None end).

(* field order = declaration order of the structs in scanner.rs (what the translator emits) *)
Definition hunk_rval (h : hunk) : rval :=
  VRec [VS (h_file h); VN (h_line h); VN (h_byte_offset h); VN (h_char_offset h); VS (h_variant h);
        VS (h_content h); VS (h_replace h); VN (h_start h); VN (h_end h); vopt_s (h_line_before h);
        vopt_s (h_line_after h); vopt_s (h_coercion h); vopt_s (h_original_file h);
        vopt_s (h_renamed_file h); vopt_s (h_patch_hash h)].

Definition rename_rval (r : rename) : rval :=
  VRec [VS (r_path r); VS (r_new_path r); VE (match r_kind r with KFile => 0 | KDir => 1 end); vopt_s (r_coercion r)].

Definition stats_rval (s : stats) : rval :=
  VRec [VN (st_files_scanned s); VN (st_total_matches s);
        VM (map (fun kv => (fst kv, VN (snd kv))) (st_by_variant s)); VN (st_files_with_matches s)].

Fixpoint index_of (names : list bytes) (s : bytes) (i : nat) : nat :=
  match names with [] => i | n :: ns => if beq n s then i else index_of ns s (S i) end.

Definition style_rval (s : bytes) : rval :=
  VE (match rfind gen_rdefs (bs "Style") with Some (REnum names) => index_of names s 0 | _ => 0 end).

Definition plan_rval (p : plan) : rval :=
  VRec [VS (p_id p); VS (p_created_at p); VS (p_search p); VS (p_replace p);
        VL (map style_rval (p_styles p)); VL (map VS (p_includes p)); VL (map VS (p_excludes p));
        VL (map hunk_rval (p_matches p)); VL (map rename_rval (p_paths p)); stats_rval (p_stats p);
        VS (p_version p);
        VO (match p_created_dirs p with Some l => Some (VL (map VS l)) | None => None end)].

Definition enc_plan_generic (p : plan) : option json := enc 12 gen_rdefs (RRef (bs "Plan")) (plan_rval p).

(* what the extension reads: search / createPlan use `parsed.plan` as a Plan, rename reads
   `parsed.plan_id || parsed.plan?.id`; apply / undo / redo read nothing *)
Definition plan_or_null : tty := TUnion [TRef (bs "Plan"); TNull].
Definition expect_plan_doc : tty := TObj [(bs "success", false, TBool); (bs "plan", false, plan_or_null)].
Definition expect_rename_doc : tty :=
  TObj [(bs "success", false, TBool); (bs "plan_id", false, TStr); (bs "plan", false, plan_or_null)].
Definition expect_simple_doc : tty := TObj [(bs "success", false, TBool); (bs "operation", false, TStr)].
(* `history()` returns JSON.parse(result) as HistoryEntry[]; `status()` as types.ts::Status *)
Definition expect_history_doc : tty := TArr (TRef (bs "HistoryEntry")).
Definition expect_status_doc : tty :=
  TObj [(bs "current_plan", true, TRef (bs "Plan")); (bs "last_operation", true, TRef (bs "HistoryEntry"))].

Definition expectations : list (bytes * tty) :=
  [(bs "PlanResult.json", expect_plan_doc); (bs "RenameResult.json", expect_rename_doc);
   (bs "ApplyResult.json", expect_simple_doc); (bs "UndoResult.json", expect_simple_doc);
   (bs "RedoResult.json", expect_simple_doc);
   (bs "HistoryResult.json", expect_history_doc); (bs "StatusResult.json", expect_status_doc)].

Definition conforms_named (n : bytes) (j : json) : bool := conforms 16 gen_tdefs (TRef n) j.
Definition conforms_expect (n : bytes) (j : json) : option bool :=
  match tfind expectations n with Some t => Some (conforms 16 gen_tdefs t j) | None => None end.
Definition compat_named (r t : bytes) : bool := compat 12 gen_rdefs gen_tdefs (RRef r) (TRef t).
Definition compat_expect (n : bytes) : option bool :=
  match tfind expectations n with Some t => Some (compat 12 gen_rdefs gen_tdefs (RRef n) t) | None => None end.

(* the keys a document of the given Rust type always / sometimes carries (tie of the envelope translation) *)
Definition rdef_keys (n : bytes) : list (bytes * bool) :=
  match rfind gen_rdefs n with
  | Some (RStruct fs) => map (fun f => (fst (fst f), match snd f with SkNever => true | _ => false end)) fs
  | _ => []
  end.
