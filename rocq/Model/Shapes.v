(* Model/Shapes.v — C19: what serde's derive(Serialize) writes for a value of a Rust type, generically over
   the type descriptions transcribed from the source (Gen/GenShapes.v: structs with their serde attributes,
   unit enums with rename_all), the TypeScript types of the published bindings (translated from
   renamify-core/bindings/*.d.ts), the conformance of a JSON tree to a TypeScript type, and a syntactic
   compatibility check between a Rust type and a TypeScript type.  Executable, no proofs. *)
From RN Require Export Base.Bytes Model.SerdeAttr Model.Serde.
Open Scope bool_scope.

(* ---- Rust side ---- *)
Inductive rty :=
| RStr | RNum | RBool            (* String / PathBuf, integers, bool *)
| ROpt (t : rty) | RVec (t : rty)
| RMap (t : rty)                 (* BTreeMap<String, t> / HashMap<String|PathBuf, t> *)
| RPair (a b : rty)              (* (a, b) : serialised as a two-element array *)
| RRef (n : bytes).              (* named struct or enum *)

Inductive rdef :=
| RStruct (fields : list (bytes * rty * skipk))
| REnum (variants : list bytes). (* serialised names, in declaration order *)

Definition rdefs := list (bytes * rdef).
Fixpoint rfind (ds : rdefs) (n : bytes) : option rdef :=
  match ds with [] => None | (k, d) :: ds' => if beq k n then Some d else rfind ds' n end.

(* values, untyped; [enc] fails (None) on a value that does not have the type *)
Inductive rval :=
| VS (s : bytes) | VN (n : N) | VB (b : bool)
| VO (o : option rval) | VL (l : list rval) | VM (m : list (bytes * rval))
| VP (a b : rval) | VRec (fs : list rval) | VE (i : nat).

(* skip_serializing_if on a field value *)
Definition skipped (k : skipk) (v : rval) : bool :=
  match k, v with
  | SkStrEmpty, VS [] | SkPathEmpty, VS [] => true
  | SkOptNone, VO None => true
  | SkVecEmpty, VL [] => true
  | _, _ => false
  end.

Fixpoint enc (fuel : nat) (ds : rdefs) (t : rty) (v : rval) {struct fuel} : option json :=
  match fuel with
  | O => None
  | S fuel' =>
    let fix enc_list (t : rty) (l : list rval) : option (list json) :=
        match l with
        | [] => Some []
        | x :: l' => match enc fuel' ds t x, enc_list t l' with
                     | Some j, Some js => Some (j :: js) | _, _ => None end
        end in
    let fix enc_map (t : rty) (m : list (bytes * rval)) : option (list (bytes * json)) :=
        match m with
        | [] => Some []
        | (k, x) :: m' => match enc fuel' ds t x, enc_map t m' with
                          | Some j, Some js => Some ((k, j) :: js) | _, _ => None end
        end in
    let fix enc_fields (fs : list (bytes * rty * skipk)) (vs : list rval) : option (list (bytes * json)) :=
        match fs, vs with
        | [], [] => Some []
        | (name, ft, sk) :: fs', x :: vs' =>
            match enc fuel' ds ft x, enc_fields fs' vs' with
            | Some j, Some js => Some (if skipped sk x then js else (name, j) :: js)
            | _, _ => None
            end
        | _, _ => None
        end in
    match t, v with
    | RStr, VS s => Some (JStr s)
    | RNum, VN n => Some (JNum n)
    | RBool, VB b => Some (JBool b)
    | ROpt _, VO None => Some JNull
    | ROpt t', VO (Some x) => enc fuel' ds t' x
    | RVec t', VL l => match enc_list t' l with Some js => Some (JArr js) | None => None end
    | RMap t', VM m => match enc_map t' m with Some js => Some (JObj js) | None => None end
    | RPair a b, VP x y => match enc fuel' ds a x, enc fuel' ds b y with
                           | Some j1, Some j2 => Some (JArr [j1; j2]) | _, _ => None end
    | RRef n, _ =>
        match rfind ds n, v with
        | Some (RStruct fs), VRec vs => match enc_fields fs vs with Some js => Some (JObj js) | None => None end
        | Some (REnum names), VE i => match nth_error names i with Some s => Some (JStr s) | None => None end
        | _, _ => None
        end
    | _, _ => None
    end
  end.

(* ---- TypeScript side ---- *)
Inductive tty :=
| TStr | TNum | TBool | TNull
| TLit (s : bytes)
| TArr (t : tty) | TRecord (t : tty)
| TTuple (ts : list tty)
| TUnion (ts : list tty)
| TObj (fs : list (bytes * bool * tty))      (* name, optional?, type *)
| TRef (n : bytes).

Definition tdefs := list (bytes * tty).
Fixpoint tfind (ds : tdefs) (n : bytes) : option tty :=
  match ds with [] => None | (k, d) :: ds' => if beq k n then Some d else tfind ds' n end.

(* structural conformance of a JSON tree to a TypeScript type (excess properties are allowed, as for any
   value that is not an object literal; `f?: T` admits an absent key, not null) *)
Fixpoint conforms (fuel : nat) (ds : tdefs) (t : tty) (j : json) {struct fuel} : bool :=
  match fuel with
  | O => false
  | S fuel' =>
    let fix all_list (t : tty) (l : list json) : bool :=
        match l with [] => true | x :: l' => conforms fuel' ds t x && all_list t l' end in
    let fix all_vals (t : tty) (m : list (bytes * json)) : bool :=
        match m with [] => true | (_, x) :: m' => conforms fuel' ds t x && all_vals t m' end in
    let fix tuple (ts : list tty) (l : list json) : bool :=
        match ts, l with
        | [], [] => true
        | t :: ts', x :: l' => conforms fuel' ds t x && tuple ts' l'
        | _, _ => false
        end in
    let fix any (ts : list tty) (j : json) : bool :=
        match ts with [] => false | t :: ts' => conforms fuel' ds t j || any ts' j end in
    let fix fields (fs : list (bytes * bool * tty)) (o : list (bytes * json)) : bool :=
        match fs with
        | [] => true
        | (name, optional, ft) :: fs' =>
            match lookup name o with
            | Some x => conforms fuel' ds ft x
            | None => optional
            end && fields fs' o
        end in
    match t, j with
    | TStr, JStr _ => true
    | TNum, JNum _ => true
    | TBool, JBool _ => true
    | TNull, JNull => true
    | TLit s, JStr s' => beq s s'
    | TArr t', JArr l => all_list t' l
    | TRecord t', JObj m => all_vals t' m
    | TTuple ts, JArr l => tuple ts l
    | TUnion ts, _ => any ts j
    | TObj fs, JObj o => fields fs o
    | TRef n, _ => match tfind ds n with Some t' => conforms fuel' ds t' j | None => false end
    | _, _ => false
    end
  end.

(* ---- compatibility of a Rust type with a TypeScript type: a decidable, syntactic sufficient condition
   for "every serialised value of the Rust type conforms to the TypeScript type" (Proofs/ShapesP.v) ---- *)
Fixpoint tfield (fs : list (bytes * bool * tty)) (n : bytes) : option (bool * tty) :=
  match fs with [] => None | (k, o, t) :: fs' => if beq k n then Some (o, t) else tfield fs' n end.
Fixpoint rfield (fs : list (bytes * rty * skipk)) (n : bytes) : option (rty * skipk) :=
  match fs with [] => None | (k, t, s) :: fs' => if beq k n then Some (t, s) else rfield fs' n end.
Fixpoint names_nodup (l : list bytes) : bool :=
  match l with [] => true | x :: l' => negb (existsb (beq x) l') && names_nodup l' end.

Definition is_lit_of (names : list bytes) (t : tty) : bool :=
  match t with TLit s => existsb (beq s) names | _ => false end.

Fixpoint compat (fuel : nat) (rds : rdefs) (tds : tdefs) (r : rty) (t : tty) {struct fuel} : bool :=
  match fuel with
  | O => false
  | S fuel' =>
    let fix each_rfield (fs : list (bytes * rty * skipk)) (tfs : list (bytes * bool * tty)) : bool :=
        (* every Rust field that the TS object declares has a compatible type; a field that may be
           skipped must be optional on the TS side *)
        match fs with
        | [] => true
        | (name, ft, sk) :: fs' =>
            match tfield tfs name with
            | None => true                                   (* excess property *)
            | Some (optional, fty) =>
                match sk with
                | SkNever => compat fuel' rds tds ft fty
                | SkOptNone =>
                    (* when present the value is Some: the field type is compared without the Option *)
                    optional && match ft with ROpt ft' => compat fuel' rds tds ft' fty | _ => false end
                | SkStrEmpty | SkPathEmpty | SkVecEmpty => optional && compat fuel' rds tds ft fty
                | SkOther => false
                end
            end && each_rfield fs' tfs
        end in
    let fix each_tfield (tfs : list (bytes * bool * tty)) (fs : list (bytes * rty * skipk)) : bool :=
        (* every required TS field is always written by the Rust side *)
        match tfs with
        | [] => true
        | (name, optional, _) :: tfs' =>
            (optional || match rfield fs name with Some (_, SkNever) => true | _ => false end)
            && each_tfield tfs' fs
        end in
    let fix any_union (ts : list tty) (r : rty) : bool :=
        match ts with [] => false | t :: ts' => compat fuel' rds tds r t || any_union ts' r end in
    match r, t with
    | _, TRef n => match tfind tds n with Some t' => compat fuel' rds tds r t' | None => false end
    | RStr, TStr => true
    | RNum, TNum => true
    | RBool, TBool => true
    | ROpt r', TUnion ts =>
        (* Option<T> without skip: null or a T *)
        existsb (fun t => match t with TNull => true | _ => false end) ts && any_union ts r'
    | RVec r', TArr t' => compat fuel' rds tds r' t'
    | RMap r', TRecord t' => compat fuel' rds tds r' t'
    | RPair a b, TTuple [ta; tb] => compat fuel' rds tds a ta && compat fuel' rds tds b tb
    | RRef n, _ =>
        match rfind rds n, t with
        | Some (RStruct fs), TObj tfs =>
            (* the TS field names must be distinct too: [each_rfield] only sees the FIRST declaration of a
               name ([tfield]), while [conforms] checks every declaration against the value *)
            names_nodup (map (fun f => fst (fst f)) fs) && names_nodup (map (fun f => fst (fst f)) tfs)
            && each_rfield fs tfs && each_tfield tfs fs
        | Some (REnum names), TUnion ts => forallb (fun s => existsb (fun t => match t with TLit s' => beq s s' | _ => false end) ts) names
        | Some (REnum names), TLit s => forallb (beq s) names
        | _, _ => false
        end
    | _, TUnion ts => any_union ts r
    | _, _ => false
    end
  end.
