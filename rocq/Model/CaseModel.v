(* Model/CaseModel.v — restatement of case_model.rs (tokenizer, to_style, detect_style, variant
   map) and acronym.rs (set membership, trie longest match).  ASCII byte logic, as in the Rust.
   Executable, no proofs. *)
From RN Require Export Base.Bytes Model.StyleDef.

Definition acr_tab := list bytes.        (* entries as stored: upper-cased *)

Definition is_delim (c : N) : bool := (c =? 95) || (c =? 45) || (c =? 46) || (c =? 32).

(* AcronymSet::is_acronym : exact membership in the (upper-cased) set *)
Definition is_acronym (acr : acr_tab) (s : bytes) : bool := existsb (beq s) acr.

(* case-insensitive "entry is a prefix of rest" (entry upper-cased) *)
Fixpoint ci_prefix (a rest : bytes) : bool :=
  match a, rest with
  | [], _ => true
  | x :: a', y :: r' => (to_upper y =? x) && ci_prefix a' r'
  | _ :: _, [] => false
  end.

(* AcronymSet::find_longest_match: the trie holds the upper and the lower spelling of every
   entry and at each node tries the byte, its upper and its lower form, so it finds the longest
   entry that is a case-insensitive prefix of the text; the slice of the TEXT is returned *)
Definition find_longest_match (acr : acr_tab) (rest : bytes) : option bytes :=
  let cands := filter (fun a => ci_prefix a rest && negb (Nat.eqb (length a) 0)) acr in
  match cands with
  | [] => None
  | _ =>
      let best := fold_left (fun b a => if Nat.ltb (length b) (length a) then a else b) cands [] in
      Some (firstn (length best) rest)
  end.

Fixpoint span (p : N -> bool) (s : bytes) : bytes * bytes :=
  match s with
  | c :: s' => if p c then let (a, b) := span p s' in (c :: a, b) else ([], s)
  | [] => ([], [])
  end.

Definition hd_is (p : N -> bool) (s : bytes) : bool :=
  match s with c :: _ => p c | [] => false end.

Definition push_tok (cur : bytes) (acc : list bytes) : list bytes :=
  match cur with [] => acc | _ => cur :: acc end.

(* acronym accepted at the start of a token? (case_model.rs lines 285-360) *)
Definition try_acronym (acr : acr_tab) (b : N) (rest : bytes) : option bytes :=
  match find_longest_match acr rest with
  | None => None
  | Some a =>
      let consistent := forallb is_upper a || forallb (fun c => is_lower c || is_digit c) a in
      if negb consistent then None else
      let after := skipn (length a) rest in
      let skip :=
        match after with
        | [] => false
        | nb :: _ =>
            if is_upper b && is_upper nb then
              match find_longest_match acr after with
              | Some _ => false
              | None => true
              end
            else
              (is_digit nb && negb (existsb is_digit a)) || (is_lower b && is_lower nb)
        end in
      if skip then None else Some a
  end.

(* upper-case run at the start of a token (lines 363-396) *)
Definition try_upper_run (acr : acr_tab) (b : N) (rest : bytes) : option bytes :=
  if is_upper b then
    let (run, after) := span is_upper rest in
    if Nat.ltb 1 (length run) && hd_is is_lower after then
      let ks := rev (seq 1 (length run - 1)) in
      match find (fun k => is_acronym acr (firstn k run)) ks with
      | Some k => Some (firstn k run)
      | None => Some (firstn (length run - 1) run)
      end
    else None
  else None.

(* "standard case boundary detection" (lines 400-486); rest' is the text after b *)
Definition should_split (acr : acr_tab) (p b : N) (cur rest rest' : bytes) : bool :=
  let s0 := is_upper b && is_upper p && forallb is_upper cur && is_acronym acr cur &&
            hd_is is_lower rest' in
  if s0 then true
  else if is_lower p && is_upper b then true
  else if is_alpha p && is_digit b then
    let (pot, _) := span (fun c => is_upper c || is_digit c) rest in is_acronym acr pot
  else if is_digit p && is_upper b then
    let digs := rev (fst (span is_digit (rev cur))) in
    let (ups, _) := span is_upper rest in
    negb (is_acronym acr (digs ++ ups))
  else false.

(* state: previous input byte, remaining text, current buffer, finished tokens (reversed).
   Every step consumes at least one byte; fuel = S (length s) never runs out (None otherwise). *)
Fixpoint tok (fuel : nat) (acr : acr_tab) (prev : option N) (rest cur : bytes) (acc : list bytes)
  : option (list bytes) :=
  match fuel with
  | O => match rest with [] => Some (rev (push_tok cur acc)) | _ => None end
  | S fuel' =>
    match rest with
    | [] => Some (rev (push_tok cur acc))
    | b :: rest' =>
      if is_delim b then tok fuel' acr (Some b) rest' [] (push_tok cur acc)
      else if is_alpha b || is_digit b then
        let start :=
          match cur with
          | _ :: _ => None
          | [] =>
              match try_acronym acr b rest with
              | Some a => Some a
              | None => try_upper_run acr b rest
              end
          end in
        match start with
        | Some a => tok fuel' acr (Some (last a b)) (skipn (length a) rest) [] (a :: acc)
        | None =>
            let split :=
              match prev, cur with
              | Some p, _ :: _ => should_split acr p b cur rest rest'
              | _, _ => false
              end in
            if split then tok fuel' acr (Some b) rest' [b] (cur :: acc)
            else tok fuel' acr (Some b) rest' (cur ++ [b]) acc
        end
      else tok fuel' acr (Some b) rest' cur acc
    end
  end.

Definition parse_to_tokens (acr : acr_tab) (s : bytes) : option (list bytes) :=
  tok (S (length s)) acr None s [] [].

(* total wrapper (the fuel never runs out; see Proofs) *)
Definition tokens (acr : acr_tab) (s : bytes) : list bytes :=
  match parse_to_tokens acr s with Some l => l | None => [] end.

(* ------------------------------------------------------------------ to_style *)
Definition lower (w : bytes) : bytes := map to_lower w.
Definition upper (w : bytes) : bytes := map to_upper w.

Definition capitalize_first (w : bytes) : bytes :=
  match w with
  | [] => []
  | c :: w' =>
      if forallb is_upper w && Nat.leb (length w) 2 then w
      else to_upper c :: lower w'
  end.

(* all-upper-case known acronym tokens are preserved by Camel/Pascal/Train *)
Definition keep_acr (acr : acr_tab) (w : bytes) : bool := forallb is_upper w && is_acronym acr w.
Definition cap_or_acr (acr : acr_tab) (w : bytes) : bytes :=
  if keep_acr acr w then w else capitalize_first w.

Definition to_style (acr : acr_tab) (ws : list bytes) (s : style) : bytes :=
  match ws with
  | [] => []
  | w0 :: ws' =>
    match s with
    | Snake => join [95] (map lower ws)
    | Kebab => join [45] (map lower ws)
    | Camel => lower w0 ++ concat (map (cap_or_acr acr) ws')
    | Pascal => concat (map (cap_or_acr acr) ws)
    | ScreamingSnake => join [95] (map upper ws)
    | Title => join [32] (map capitalize_first ws)
    | Train => join [45] (map (cap_or_acr acr) ws)
    | ScreamingTrain => join [45] (map upper ws)
    | Dot => join [46] (map lower ws)
    | LowerFlat => concat (map lower ws)
    | UpperFlat => concat (map upper ws)
    | Sentence => join [32] (capitalize_first w0 :: map lower ws')
    | LowerSentence => join [32] (map lower ws)
    | UpperSentence => join [32] (map upper ws)
    end
  end.

(* ------------------------------------------------------------------ detect_style *)
(* str::split(sep): always at least one piece *)
Fixpoint split_on (sep : N) (s : bytes) : list bytes :=
  match s with
  | [] => [[]]
  | c :: s' =>
      if c =? sep then [] :: split_on sep s'
      else match split_on sep s' with
           | w :: ws => (c :: w) :: ws
           | [] => [[c]]
           end
  end.

Definition is_title_word (w : bytes) : bool :=
  match w with c :: w' => is_upper c && forallb is_lower w' | [] => false end.

Definition is_train_case (acr : acr_tab) (s : bytes) : bool :=
  forallb (fun w =>
    match w with
    | [] => false
    | _ => is_title_word w || (Nat.leb 2 (length w) && forallb is_upper w && is_acronym acr w)
    end) (split_on 45 s).

Definition is_title_case (s : bytes) : bool := forallb is_title_word (split_on 32 s).

Definition is_sentence_case (s : bytes) : bool :=
  match split_on 32 s with
  | [] => false
  | w0 :: ws =>
      is_title_word w0 &&
      forallb (fun w => match w with [] => false | _ => forallb (fun c => negb (is_upper c)) w end) ws
  end.

Fixpoint index_of (c : N) (s : bytes) : option nat :=
  match s with
  | [] => None
  | x :: s' => if x =? c then Some O else option_map S (index_of c s')
  end.

Definition detect_style (acr : acr_tab) (s : bytes) : option style :=
  match s with
  | [] => None
  | c0 :: _ =>
    let has_us := existsb (N.eqb 95) s in
    let has_hy := existsb (N.eqb 45) s in
    let has_dot := existsb (N.eqb 46) s && negb (c0 =? 46) in
    let has_sp := existsb (N.eqb 32) s in
    let has_up := existsb is_upper s in
    let has_lo := existsb is_lower s in
    match has_us, has_hy, has_dot, has_sp with
    | true, false, false, false =>
        match has_up, has_lo with
        | false, true => Some Snake
        | true, false => Some ScreamingSnake
        | _, _ => None
        end
    | false, true, false, false =>
        match has_up, has_lo with
        | false, true => Some Kebab
        | true, false => Some ScreamingTrain
        | true, true => if is_train_case acr s then Some Train else None
        | false, false => None
        end
    | true, true, false, false =>
        match index_of 45 s, index_of 95 s with
        | Some hp, Some up =>
            if Nat.ltb up hp then
              (if has_up && negb has_lo then Some ScreamingSnake else Some Snake)
            else
              (if has_up && negb has_lo then Some ScreamingTrain
               else if is_train_case acr (firstn (S hp) s) then Some Train else Some Kebab)
        | _, _ => Some Snake
        end
    | false, false, true, false => if has_lo then Some Dot else None
    | false, false, false, true =>
        match has_up, has_lo with
        | true, true => if is_title_case s then Some Title
                        else if is_sentence_case s then Some Sentence else None
        | false, true => Some LowerSentence
        | true, false => Some UpperSentence
        | false, false => None
        end
    | false, false, false, false =>
        match has_up, has_lo with
        | true, true => if is_upper c0 then Some Pascal else if is_lower c0 then Some Camel else None
        | _, _ => None
        end
    | _, _, _, _ => None
    end
  end.

(* ------------------------------------------------------------------ variant maps *)
(* BTreeMap<String,String> as an association list kept sorted by key (byte order) *)

Definition amap := list (bytes * bytes).

Fixpoint amap_get (k : bytes) (m : amap) : option bytes :=
  match m with
  | [] => None
  | (k', v) :: m' => if beq k k' then Some v else amap_get k m'
  end.

(* insert keeping order; [overwrite=false] is entry().or_insert *)
Fixpoint amap_put (overwrite : bool) (k v : bytes) (m : amap) : amap :=
  match m with
  | [] => [(k, v)]
  | (k', v') :: m' =>
      if beq k k' then (if overwrite then (k, v) :: m' else m)
      else if bytes_ltb k k' then (k, v) :: m
      else (k', v') :: amap_put overwrite k v m'
  end.

(* `if search_variant.is_empty() { continue; }`: a term without letters or digits has no tokens *)
Definition amap_put_ne (overwrite : bool) (k v : bytes) (m : amap) : amap :=
  match k with [] => m | _ => amap_put overwrite k v m end.

(* the pluraliser is an oracle: an association list word -> result (identity when absent) *)
Definition oracle := list (bytes * bytes).
Definition ask (o : oracle) (w : bytes) : bytes := match amap_get w o with Some r => r | None => w end.

(* transform_last_token *)
Definition transform_last (f : bytes -> bytes) (ws : list bytes) : option (list bytes) :=
  match rev ws with
  | [] => None
  | l :: pre => let t := f l in if beq t l then None else Some (rev pre ++ [t])
  end.

Definition variant_models (sing plur : oracle) (plurals : bool) (st rt : list bytes)
  : list (list bytes * list bytes) :=
  (st, rt) ::
  (if plurals then
     (match transform_last (ask sing) st with
      | Some s1 => [(s1, match transform_last (ask sing) rt with Some r1 => r1 | None => rt end)]
      | None => []
      end) ++
     (match transform_last (ask plur) st with
      | Some s2 => [(s2, match transform_last (ask plur) rt with Some r2 => r2 | None => rt end)]
      | None => []
      end)
   else []).

(* case_model.rs::generate_variant_map_internal (no atomic config).
   [styles = None] means "defaults" and additionally triggers the exact-match override unless the
   search term is ambiguous ([ambiguous] is computed by case_constraints, an input here). *)
Definition variant_map_core (acr : acr_tab) (defaults : list style) (sing plur : oracle)
           (plurals ambiguous : bool) (search repl : bytes) (styles : option (list style)) : amap :=
  let sts := match styles with Some l => l | None => defaults end in
  let st := tokens acr search in
  let rt := tokens acr repl in
  let vms := variant_models sing plur plurals st rt in
  let m := fold_left (fun m s =>
             fold_left (fun m (pr : list bytes * list bytes) =>
               amap_put_ne false (to_style acr (fst pr) s) (to_style acr (snd pr) s) m) vms m) sts [] in
  match styles with
  | None => if ambiguous then m else amap_put true search repl m
  | Some _ => m
  end.

(* scanner.rs::generate_variant_map_with_acronyms + VariantMap::{insert,get,to_btree_map}:
   multi-valued; get prefers the Snake entry, else the first inserted *)
Definition vmap := list (bytes * list (option style * bytes)).

Fixpoint vmap_put (k : bytes) (s : option style) (v : bytes) (m : vmap) : vmap :=
  match m with
  | [] => [(k, [(s, v)])]
  | (k', l) :: m' =>
      if beq k k' then (k', l ++ [(s, v)]) :: m'
      else if bytes_ltb k k' then (k, [(s, v)]) :: m
      else (k', l) :: vmap_put k s v m'
  end.

Definition vmap_put_ne (k : bytes) (s : option style) (v : bytes) (m : vmap) : vmap :=
  match k with [] => m | _ => vmap_put k s v m end.

Definition vmap_pick (l : list (option style * bytes)) : option bytes :=
  match l with
  | [] => None
  | [(_, v)] => Some v
  | (_, v0) :: _ =>
      match find (fun e => match fst e with Some Snake => true | _ => false end) l with
      | Some (_, v) => Some v
      | None => Some v0
      end
  end.

Definition variant_map_scanner (acr acr_default : acr_tab) (defaults : list style) (sing plur : oracle)
           (plurals : bool) (search repl : bytes) (styles : option (list style)) : vmap :=
  let sts := match styles with Some l => l | None => defaults end in
  let st := tokens acr search in
  let rt := tokens acr repl in
  let vms := variant_models sing plur plurals st rt in
  let m0 := match styles with None => vmap_put search None repl [] | Some _ => [] end in
  fold_left (fun m s =>
    fold_left (fun m (pr : list bytes * list bytes) =>
      vmap_put_ne (to_style acr_default (fst pr) s) (Some s) (to_style acr_default (snd pr) s) m) vms m)
    sts m0.

Definition vmap_to_amap (m : vmap) : amap :=
  flat_map (fun kv => match vmap_pick (snd kv) with Some v => [(fst kv, v)] | None => [] end) m.
