(* Model/ClapDef.v — vocabulary of the CLI-grammar translator (GenCli.v, dumped from the real clap Command)
   and of the wrapper translator (GenWrappers.v). *)
From RN Require Export Base.Bytes.

Inductive action := ASetTrue | ASetFalse | ACount | ASet | AAppend | AOther.
(* value parser: any string / PathBuf (rejects the empty string) / unsigned number *)
Inductive vkind := VAny | VPath | VNum.

Record aspec := {
  a_id : bytes;
  a_long : option bytes;
  a_short : option N;
  a_positional : bool;
  a_required : bool;
  a_action : action;
  a_multiple : bool;             (* positional: variadic *)
  a_delim : option N;            (* value_delimiter *)
  a_possible : list bytes;       (* value_enum: [] = any value *)
  a_vkind : vkind;
  a_global : bool }.

Record cspec := { c_name : bytes; c_args : list aspec; c_conflicts : list (bytes * bytes) }.

(* option values handed to a wrapper's args-builder *)
Inductive fval := FAbsent | FStr (s : bytes) | FBool (b : bool) | FList (l : list bytes) | FNum (n : N).
Definition opts := list (bytes * fval).
Fixpoint fget (o : opts) (k : bytes) : fval :=
  match o with [] => FAbsent | (k', v) :: o' => if beq k k' then v else fget o' k end.
(* JavaScript truthiness of the field / `x?.length` / `x === false` / `x !== undefined` *)
Definition truthy (o : opts) (k : bytes) : bool :=
  match fget o k with
  | FAbsent => false | FStr s => negb (Nat.eqb (length s) 0) | FBool b => b
  | FList _ => true | FNum n => negb (N.eqb n 0)
  end.
Definition has_len (o : opts) (k : bytes) : bool :=
  match fget o k with FList l => negb (Nat.eqb (length l) 0) | FStr s => negb (Nat.eqb (length s) 0) | _ => false end.
Definition is_false (o : opts) (k : bytes) : bool := match fget o k with FBool false => true | _ => false end.
Definition defined (o : opts) (k : bytes) : bool := match fget o k with FAbsent => false | _ => true end.
Definition fstr (o : opts) (k : bytes) : bytes :=
  match fget o k with FStr s => s | FBool true => [116;114;117;101] | FBool false => [102;97;108;115;101]
                    | FNum n => [48 + n mod 10] | _ => [117;110;100;101;102;105;110;101;100] end.   (* "undefined" *)
Definition flist (o : opts) (k : bytes) : list bytes := match fget o k with FList l => l | _ => [] end.
Definition fjoin (o : opts) (k : bytes) : bytes := join [44] (flist o k).
