(* Model/ParMerge.v — the parallel per-file stage of scan_repository_multi:
   file_entries.par_iter().map(f).collect() fills index-addressed slots in ANY completion order and
   reads them back in index order; the per-file outcomes are then merged (counts summed, hunks
   concatenated) and the matches sorted by (file, line, column).  Executable, no proofs. *)
From Coq Require Export List Arith Bool Lia Permutation.
Export ListNotations.

Section Par.
  Variable A : Type.
  (* workers finish the items in the order [order]; each writes its own slot *)
  Definition fill (order : list nat) (f : nat -> A) : list (nat * A) := map (fun i => (i, f i)) order.
  Fixpoint slot (i : nat) (slots : list (nat * A)) : option A :=
    match slots with
    | [] => None
    | (j, a) :: s' => if Nat.eqb i j then Some a else slot i s'
    end.
  Definition collect (n : nat) (slots : list (nat * A)) : list (option A) := map (fun i => slot i slots) (seq 0 n).
End Par.
Arguments fill {A}. Arguments slot {A}. Arguments collect {A}.

(* stats: per-file counts per variant (variants as numbers), merged by summation *)
Definition counts := nat -> nat.
Definition merge_counts (os : list counts) (v : nat) : nat := fold_left (fun acc o => acc + o v) os 0.

(* the final sort of the matches by a key (file, line, column encoded as one number) *)
Fixpoint insert_key (k : nat) (l : list nat) : list nat :=
  match l with
  | [] => [k]
  | x :: l' => if Nat.leb k x then k :: l else x :: insert_key k l'
  end.
Definition sort_keys (l : list nat) : list nat := fold_right insert_key [] l.
