(* Model/Coercion.v — restatement of coercion.rs (renamify-core/src/coercion.rs): Style, detect_style
   (lines 49-208) with is_title_case / is_train_case / is_sentence_case (210-319), tokenize (322-421),
   render_tokens (424-514), extract_prefix (518-526), apply_coercion (529-648) with
   replace_case_insensitive (651-683); and scanner.rs::apply_coercion_to_variant /
   detect_compound_coercion, which only call the functions above.  Executable Gallina, no proofs
   (they are in Proofs/CoercionP.v).

   Domain: ASCII.  There char::is_uppercase / is_lowercase / is_alphanumeric / is_alphabetic are
   is_upper / is_lower / is_alnum / is_alpha, to_lowercase / to_uppercase are the byte maps, chars are
   bytes (so `chars().nth(i)` is the byte at i and all slices fall on boundaries).
   [acr] is the acronym table is_title_case / is_train_case read (get_default_acronym_set() in the
   Rust: Gen.GenAcronyms.gen_acronyms); AcronymSet::is_acronym is exact membership.
   Token.is_acronym is dropped: render_tokens only reads Token.word.
   The reason string of apply_coercion, "coerced to {:?} style" / "partial coercion to {:?} style", is
   kept as (partial?, style). *)
From Coq Require Import Strings.String.
From RN Require Export Base.Bytes Base.Str.
From RN Require Import Model.CaseModel.
Open Scope bool_scope.

(* coercion.rs has its own Style enum: the 14 styles of case_model.rs in the same order, plus Mixed *)
Inductive cstyle :=
| CSnake | CKebab | CCamel | CPascal | CScreamingSnake | CTitle | CTrain | CScreamingTrain
| CDot | CLowerFlat | CUpperFlat | CSentence | CLowerSentence | CUpperSentence | CMixed.

Definition cstyle_eqb (a b : cstyle) : bool :=
  match a, b with
  | CSnake, CSnake | CKebab, CKebab | CCamel, CCamel | CPascal, CPascal
  | CScreamingSnake, CScreamingSnake | CTitle, CTitle | CTrain, CTrain
  | CScreamingTrain, CScreamingTrain | CDot, CDot | CLowerFlat, CLowerFlat | CUpperFlat, CUpperFlat
  | CSentence, CSentence | CLowerSentence, CLowerSentence | CUpperSentence, CUpperSentence
  | CMixed, CMixed => true
  | _, _ => false
  end.

(* ------------------------------------------------------------------ str helpers *)
(* str::find(&str): first occurrence ("" at 0) *)
Fixpoint sfind (pat s : bytes) {struct s} : option nat :=
  if is_prefix pat s then Some O
  else match s with
       | [] => None
       | _ :: s' => option_map S (sfind pat s')
       end.
Definition scontains (pat s : bytes) : bool := match sfind pat s with Some _ => true | None => false end.
Definition has_byte (c : N) (s : bytes) : bool := existsb (N.eqb c) s.

(* str::rfind(char) *)
Fixpoint rindex_from (c : N) (s : bytes) (i : nat) (best : option nat) : option nat :=
  match s with
  | [] => best
  | x :: s' => rindex_from c s' (S i) (if x =? c then Some i else best)
  end.
Definition rindex (c : N) (s : bytes) : option nat := rindex_from c s 0 None.

(* str::trim_matches(|c| !c.is_alphanumeric()) *)
Fixpoint drop_nonalnum (s : bytes) : bytes :=
  match s with
  | c :: s' => if is_alnum c then s else drop_nonalnum s'
  | [] => []
  end.
Definition trim_nonalnum (s : bytes) : bytes := rev (drop_nonalnum (rev (drop_nonalnum s))).

(* ------------------------------------------------------------------ detect_style *)
Definition file_extensions : list bytes :=
  [bs "rs"; bs "js"; bs "ts"; bs "py"; bs "java"; bs "cpp"; bs "c"; bs "h"; bs "txt"; bs "md";
   bs "json"; bs "xml"; bs "html"; bs "css"; bs "scss"; bs "toml"; bs "yml"; bs "yaml"; bs "exe";
   bs "dll"; bs "so"; bs "dylib"; bs "a"; bs "lib"; bs "png"; bs "jpg"; bs "jpeg"; bs "gif";
   bs "svg"; bs "ico"; bs "pdf"].

(* lines 53-103: strip a known file extension (the dot is neither first nor last) *)
Definition basename_of (s : bytes) : bytes :=
  match rindex 46 s with
  | Some p =>
      if Nat.ltb 0 p && Nat.ltb p (length s - 1) then
        let ext := skipn (S p) s in
        if Nat.leb (length ext) 6 && forallb is_alnum ext && existsb (beq ext) file_extensions
        then firstn p s else s
      else s
  | None => s
  end.

(* lines 106-143: one pass over the basename.  The four separators do NOT reset prev_was_lower /
   prev_was_upper (their match arms only count); any other non-letter does. *)
Record dstate := {
  d_hy : nat; d_us : nat; d_dot : nat; d_sp : nat;
  d_up : bool; d_lo : bool; d_trans : nat; d_pl : bool; d_pu : bool }.

Definition d_init : dstate :=
  {| d_hy := 0; d_us := 0; d_dot := 0; d_sp := 0; d_up := false; d_lo := false; d_trans := 0;
     d_pl := false; d_pu := false |}.

Definition d_step (st : dstate) (ch : N) : dstate :=
  if ch =? 45 then {| d_hy := S (d_hy st); d_us := d_us st; d_dot := d_dot st; d_sp := d_sp st;
                      d_up := d_up st; d_lo := d_lo st; d_trans := d_trans st; d_pl := d_pl st; d_pu := d_pu st |}
  else if ch =? 95 then {| d_hy := d_hy st; d_us := S (d_us st); d_dot := d_dot st; d_sp := d_sp st;
                      d_up := d_up st; d_lo := d_lo st; d_trans := d_trans st; d_pl := d_pl st; d_pu := d_pu st |}
  else if ch =? 46 then {| d_hy := d_hy st; d_us := d_us st; d_dot := S (d_dot st); d_sp := d_sp st;
                      d_up := d_up st; d_lo := d_lo st; d_trans := d_trans st; d_pl := d_pl st; d_pu := d_pu st |}
  else if ch =? 32 then {| d_hy := d_hy st; d_us := d_us st; d_dot := d_dot st; d_sp := S (d_sp st);
                      d_up := d_up st; d_lo := d_lo st; d_trans := d_trans st; d_pl := d_pl st; d_pu := d_pu st |}
  else if is_upper ch then
    {| d_hy := d_hy st; d_us := d_us st; d_dot := d_dot st; d_sp := d_sp st;
       d_up := true; d_lo := d_lo st; d_trans := (if d_pl st then S (d_trans st) else d_trans st);
       d_pl := false; d_pu := true |}
  else if is_lower ch then
    {| d_hy := d_hy st; d_us := d_us st; d_dot := d_dot st; d_sp := d_sp st;
       d_up := d_up st; d_lo := true; d_trans := (if d_pu st then S (d_trans st) else d_trans st);
       d_pl := true; d_pu := false |}
  else
    {| d_hy := d_hy st; d_us := d_us st; d_dot := d_dot st; d_sp := d_sp st;
       d_up := d_up st; d_lo := d_lo st; d_trans := d_trans st; d_pl := false; d_pu := false |}.

Definition d_scan (s : bytes) : dstate := fold_left d_step s d_init.

Section WithAcr.
Variable acr : acr_tab.

(* lines 255-288 *)
Definition is_train_part (part : bytes) : bool :=
  match part with
  | [] => false
  | first :: rest =>
      is_upper first &&
      match rest with
      | [] => true
      | _ => (forallb is_upper rest && is_acronym acr part) || forallb is_lower rest
      end
  end.
Definition co_is_train_case (s : bytes) : bool :=
  let parts := split_on 45 s in
  Nat.leb 2 (length parts) && forallb is_train_part parts.

(* lines 210-253 *)
Definition title_word_ok (raw : bytes) : option bool :=     (* None: skipped (no word) *)
  match raw with
  | [] => None
  | _ =>
      match trim_nonalnum raw with
      | [] => None
      | first :: rest =>
          Some (is_upper first &&
                match rest with
                | [] => true
                | _ => (forallb is_upper rest && is_acronym acr (first :: rest)) || forallb is_lower rest
                end)
      end
  end.
(* the loop returns false at the first bad word, else has_word *)
Fixpoint title_loop (has_word : bool) (ws : list bytes) : bool :=
  match ws with
  | [] => has_word
  | w :: ws' =>
      match title_word_ok w with
      | None => title_loop has_word ws'
      | Some true => title_loop true ws'
      | Some false => false
      end
  end.
Definition co_is_title_case (s : bytes) : bool := title_loop false (split_on 32 s).

(* lines 290-319 *)
Definition co_is_sentence_case (s : bytes) : bool :=
  match filter (fun w => negb (Nat.eqb (length w) 0)) (split_on 32 s) with
  | [] => false
  | w0 :: ws =>
      match w0 with
      | [] => false
      | c :: rest => is_upper c && forallb is_lower rest     (* rest empty: all() is true *)
      end && forallb (forallb is_lower) ws
  end.

(* lines 145-207 *)
Definition co_detect_style (s : bytes) : cstyle :=
  let b := basename_of s in
  let st := d_scan b in
  let hy := negb (Nat.eqb (d_hy st) 0) in
  let us := negb (Nat.eqb (d_us st) 0) in
  let dt := negb (Nat.eqb (d_dot st) 0) in
  let sp := negb (Nat.eqb (d_sp st) 0) in
  let up := d_up st in
  let lo := d_lo st in
  let tr := negb (Nat.eqb (d_trans st) 0) in
  if hy && negb us && negb dt && negb sp then
    if up && negb lo then CScreamingTrain
    else if co_is_train_case b then CTrain
    else if up && lo && tr then
      if forallb (fun part => negb (Nat.eqb (length part) 0) &&
                              forallb (fun c => negb (is_alpha c) || is_lower c) part) (split_on 45 b)
      then CKebab else CMixed
    else CKebab
  else if us && negb hy && negb dt && negb sp then
    if up && negb lo then CScreamingSnake else CSnake
  else if dt && negb hy && negb us && negb sp then CDot
  else if sp && negb hy && negb us && negb dt then
    if up && negb lo then CUpperSentence
    else if negb up && lo then CLowerSentence
    else if co_is_title_case b then CTitle
    else if co_is_sentence_case b then CSentence
    else CMixed
  else if negb hy && negb us && negb dt && negb sp then
    if tr then (if hd_is is_upper b then CPascal else CCamel)
    else if up && negb lo then CUpperFlat
    else if negb up && lo then CLowerFlat
    else CMixed
  else CMixed.

(* ------------------------------------------------------------------ tokenize *)
(* state: tokens so far (reversed), current word, prev_was_lower, prev_was_upper, consecutive_upper *)
Definition flush (cur : bytes) (toks : list bytes) : list bytes :=
  match cur with [] => toks | _ => lower cur :: toks end.

Fixpoint tokenize_loop (s : bytes) (toks : list bytes) (cur : bytes) (pl pu : bool) (cu : nat)
  : list bytes :=
  match s with
  | [] => rev (flush cur toks)
  | ch :: s' =>
      if (ch =? 45) || (ch =? 95) || (ch =? 46) || (ch =? 32) then
        tokenize_loop s' (flush cur toks) [] false false 0
      else if is_upper ch then
        if pl then tokenize_loop s' (flush cur toks) [ch] false true (S cu)
        else tokenize_loop s' toks (cur ++ [ch]) false true (S cu)
      else if is_lower ch then
        if pu && Nat.ltb 1 cu then
          (* end of an acronym: its last upper-case letter starts the new word *)
          let last_upper := last cur 0 in
          let before := removelast cur in
          tokenize_loop s' (flush before toks) [last_upper; ch] true false 0
        else tokenize_loop s' toks (cur ++ [ch]) true false 0
      else if is_alnum ch then
        tokenize_loop s' toks (cur ++ [ch]) false false 0
      else
        tokenize_loop s' (flush cur toks) [] false false 0
  end.
Definition co_tokenize (s : bytes) : list bytes := tokenize_loop s [] [] false false 0.

(* ------------------------------------------------------------------ render_tokens *)
Definition co_capitalize (w : bytes) : bytes :=
  match w with [] => [] | c :: w' => to_upper c :: w' end.

Definition co_render (ts : list bytes) (st : cstyle) : bytes :=
  match ts with
  | [] => []
  | t0 :: ts' =>
      match st with
      | CSnake | CMixed => join [95] ts
      | CKebab => join [45] ts
      | CCamel => t0 ++ concat (map co_capitalize ts')
      | CPascal => concat (map co_capitalize ts)
      | CScreamingSnake => join [95] (map upper ts)
      | CTitle => join [32] (map co_capitalize ts)
      | CTrain => join [45] (map co_capitalize ts)
      | CScreamingTrain => join [45] (map upper ts)
      | CDot => join [46] ts
      | CLowerFlat => concat ts
      | CUpperFlat => concat (map upper ts)
      | CSentence => join [32] (co_capitalize t0 :: ts')
      | CLowerSentence => join [32] ts
      | CUpperSentence => join [32] (map upper ts)
      end
  end.

(* ------------------------------------------------------------------ apply_coercion *)
(* extract_prefix: "__" first, then "_" *)
Definition extract_prefix (s : bytes) : bytes * bytes :=
  match s with
  | a :: s1 =>
      if a =? 95 then
        match s1 with
        | b :: s2 => if b =? 95 then ([95; 95], s2) else ([95], s1)
        | [] => ([95], s1)
        end
      else ([], s)
  | [] => ([], s)
  end.

(* replace_case_insensitive: non-overlapping matches of the lower-cased pattern, left to right *)
Fixpoint replace_ci_loop (fuel : nat) (pat_lower : bytes) (plen : nat) (repl text : bytes) : bytes :=
  match fuel with
  | O => text
  | S fuel' =>
      match text with
      | [] => []
      | c :: text' =>
          if is_prefix pat_lower (lower text)
          then repl ++ replace_ci_loop fuel' pat_lower plen repl (skipn plen text)
          else c :: replace_ci_loop fuel' pat_lower plen repl text'
      end
  end.
Definition replace_ci (text pattern repl : bytes) : bytes :=
  match pattern with
  | [] => text
  | _ => replace_ci_loop (S (length text)) (lower pattern) (length pattern) repl text
  end.

Definition flat_style (s : cstyle) : bool := match s with CLowerFlat | CUpperFlat => true | _ => false end.
Definition mixed_or_dot (s : cstyle) : bool := match s with CMixed | CDot => true | _ => false end.

(* the answer: (new container, partial?, style named in the reason) *)
Definition co_apply_coercion (container old new : bytes) : option (bytes * bool * cstyle) :=
  let (prefix, cwp) := extract_prefix container in
  let cl := lower cwp in
  let ol := lower old in
  if beq cl ol then None
  else
    match sfind ol cl with
    | None => None
    | Some pos =>
        let container_style := co_detect_style cwp in
        let pattern_style := co_detect_style old in
        let end_pos := (pos + length ol)%nat in
        let is_partial :=
          cstyle_eqb container_style CMixed && has_byte 45 cwp && negb (has_byte 95 cwp) &&
          negb (has_byte 46 cwp) && Nat.ltb end_pos (length cwp) &&
          match nth_error cwp end_pos with Some x => x =? 45 | None => false end in
        if is_partial then
          let part_style := co_detect_style (firstn (length old) (skipn pos cwp)) in
          if mixed_or_dot part_style then None
          else Some (prefix ++ replace_ci cwp old (co_render (co_tokenize new) part_style), true, part_style)
        else if mixed_or_dot container_style then None
        else
          let replacement_style := co_detect_style new in
          let target :=
            if flat_style container_style && negb (flat_style replacement_style) &&
               negb (mixed_or_dot replacement_style)
            then replacement_style
            else if cstyle_eqb pattern_style CPascal &&
                    (cstyle_eqb container_style CCamel || cstyle_eqb container_style CPascal)
            then CPascal
            else container_style in
          Some (prefix ++ replace_ci cwp old (co_render (co_tokenize new) target), false, target)
    end.

(* ------------------------------------------------------------------ scanner.rs callers *)
(* apply_coercion_to_variant(container, _old_variant, new_variant) *)
Definition co_coerce_variant (container new : bytes) : option bytes :=
  let st := co_detect_style (snd (extract_prefix container)) in
  if mixed_or_dot st then None else Some (co_render (co_tokenize new) st).

(* detect_compound_coercion(context, _match, after) *)
Definition co_compound_coercion (context after : bytes) : option cstyle :=
  let a := co_detect_style context in
  let b := co_detect_style after in
  match a with
  | CSnake | CKebab | CPascal | CCamel | CScreamingSnake | CTitle => if cstyle_eqb a b then Some a else None
  | _ => None
  end.

End WithAcr.
