(* Model/Serde.v — what #[derive(Serialize, Deserialize)] does for the plan / history structs,
   driven by the attributes transcribed from the source (Gen/GenSerde.v).
   JSON text (escaping, number syntax, pretty printing) is serde_json's business and trusted;
   the model works on JSON trees.  Executable, no proofs. *)
From Coq Require Import Strings.String.
From RN Require Export Base.Bytes Base.Str Model.SerdeAttr.
From RN Require Import Gen.GenSerde.

Inductive json :=
| JNull
| JBool (b : bool)
| JNum (n : N)
| JStr (s : bytes)
| JArr (l : list json)
| JObj (l : list (bytes * json)).

Fixpoint lookup (k : bytes) (o : list (bytes * json)) : option json :=
  match o with
  | [] => None
  | (k', v) :: o' => if beq k k' then Some v else lookup k o'
  end.

(* the attribute row of a field; a missing row makes the field unserialisable in the model
   (the proofs then fail, which is the intended signal when a field is renamed or removed) *)
Fixpoint attr_of (tbl : list fattr) (name : bytes) : option fattr :=
  match tbl with
  | [] => None
  | a :: tbl' => if beq (fa_name a) name then Some a else attr_of tbl' name
  end.

Definition skips_str (a : fattr) (s : bytes) : bool :=
  match fa_skip a with
  | SkStrEmpty | SkPathEmpty => match s with [] => true | _ => false end
  | _ => false
  end.
Definition skips_opt {A} (a : fattr) (o : option A) : bool :=
  match fa_skip a with
  | SkOptNone => match o with None => true | Some _ => false end
  | _ => false
  end.

Definition emit (skip : bool) (a : fattr) (j : json) : list (bytes * json) :=
  if skip then [] else [(fa_name a, j)].

(* ---- serialisation of the leaf kinds ---- *)
Definition enc_opt {A} (f : A -> json) (o : option A) : json :=
  match o with None => JNull | Some x => f x end.

Definition emit_str (a : fattr) (s : bytes) := emit (skips_str a s) a (JStr s).
Definition emit_num (a : fattr) (n : N) := emit false a (JNum n).
Definition emit_optstr (a : fattr) (o : option bytes) := emit (skips_opt a o) a (enc_opt JStr o).
Definition emit_json (a : fattr) (j : json) := emit false a j.

(* ---- deserialisation of the leaf kinds (serde derive rules):
   a missing key is an error unless the field has `default` or is an Option *)
Definition get_str (a : fattr) (o : list (bytes * json)) : option bytes :=
  match lookup (fa_name a) o with
  | Some (JStr s) => Some s
  | Some _ => None
  | None => if fa_default a then Some [] else None
  end.
Definition get_num (a : fattr) (o : list (bytes * json)) : option N :=
  match lookup (fa_name a) o with
  | Some (JNum n) => Some n
  | Some _ => None
  | None => if fa_default a then Some 0 else None
  end.
Definition get_optstr (a : fattr) (o : list (bytes * json)) : option (option bytes) :=
  match lookup (fa_name a) o with
  | Some JNull => Some None
  | Some (JStr s) => Some (Some s)
  | Some _ => None
  | None => Some None
  end.
Definition get_json (a : fattr) (o : list (bytes * json)) : option json :=
  match lookup (fa_name a) o with
  | Some j => Some j
  | None => None
  end.

(* ---- the structs ---- *)
Record hunk := {
  h_file : bytes; h_line : N; h_byte_offset : N; h_char_offset : N;
  h_variant : bytes; h_content : bytes; h_replace : bytes; h_start : N; h_end : N;
  h_line_before : option bytes; h_line_after : option bytes; h_coercion : option bytes;
  h_original_file : option bytes; h_renamed_file : option bytes; h_patch_hash : option bytes }.

Inductive rkind := KFile | KDir.
Record rename := { r_path : bytes; r_new_path : bytes; r_kind : rkind; r_coercion : option bytes }.

Record stats := { st_files_scanned : N; st_total_matches : N;
                  st_by_variant : list (bytes * N); st_files_with_matches : N }.

Record plan := {
  p_id : bytes; p_created_at : bytes; p_search : bytes; p_replace : bytes;
  p_styles : list bytes; p_includes : list bytes; p_excludes : list bytes;
  p_matches : list hunk; p_paths : list rename; p_stats : stats; p_version : bytes;
  p_created_dirs : option (list bytes) }.

(* attribute lookup with a poisoned default: a field missing from the generated table gets
   a name no decoder asks for, so the round trip fails *)
Definition poison : fattr := {| fa_name := bs "<missing>"; fa_ty := []; fa_skip := SkOther; fa_default := false |}.
Definition at_ (tbl : list fattr) (name : bytes) : fattr :=
  match attr_of tbl name with Some a => a | None => poison end.

Section Hunk.
  Variable T : list fattr.
  Definition hunk_obj (h : hunk) : list (bytes * json) :=
         (emit_str (at_ T (bs "file")) (h_file h) ++
          emit_num (at_ T (bs "line")) (h_line h) ++
          emit_num (at_ T (bs "byte_offset")) (h_byte_offset h) ++
          emit_num (at_ T (bs "char_offset")) (h_char_offset h) ++
          emit_str (at_ T (bs "variant")) (h_variant h) ++
          emit_str (at_ T (bs "content")) (h_content h) ++
          emit_str (at_ T (bs "replace")) (h_replace h) ++
          emit_num (at_ T (bs "start")) (h_start h) ++
          emit_num (at_ T (bs "end")) (h_end h) ++
          emit_optstr (at_ T (bs "line_before")) (h_line_before h) ++
          emit_optstr (at_ T (bs "line_after")) (h_line_after h) ++
          emit_optstr (at_ T (bs "coercion_applied")) (h_coercion h) ++
          emit_optstr (at_ T (bs "original_file")) (h_original_file h) ++
          emit_optstr (at_ T (bs "renamed_file")) (h_renamed_file h) ++
          emit_optstr (at_ T (bs "patch_hash")) (h_patch_hash h)).
  Definition encode_hunk (h : hunk) : json := JObj (hunk_obj h).

  Definition decode_hunk (j : json) : option hunk :=
    match j with
    | JObj o =>
      match get_str (at_ T (bs "file")) o, get_num (at_ T (bs "line")) o,
            get_num (at_ T (bs "byte_offset")) o, get_num (at_ T (bs "char_offset")) o,
            get_str (at_ T (bs "variant")) o, get_str (at_ T (bs "content")) o,
            get_str (at_ T (bs "replace")) o, get_num (at_ T (bs "start")) o,
            get_num (at_ T (bs "end")) o, get_optstr (at_ T (bs "line_before")) o,
            get_optstr (at_ T (bs "line_after")) o, get_optstr (at_ T (bs "coercion_applied")) o,
            get_optstr (at_ T (bs "original_file")) o, get_optstr (at_ T (bs "renamed_file")) o,
            get_optstr (at_ T (bs "patch_hash")) o with
      | Some f, Some l, Some bo, Some co, Some v, Some c, Some r, Some s, Some e,
        Some lb, Some la, Some ca, Some of_, Some rf, Some ph =>
        Some {| h_file := f; h_line := l; h_byte_offset := bo; h_char_offset := co;
                h_variant := v; h_content := c; h_replace := r; h_start := s; h_end := e;
                h_line_before := lb; h_line_after := la; h_coercion := ca;
                h_original_file := of_; h_renamed_file := rf; h_patch_hash := ph |}
      | _, _, _, _, _, _, _, _, _, _, _, _, _, _, _ => None
      end
    | _ => None
    end.
End Hunk.

Definition enc_kind (k : rkind) : json := JStr (match k with KFile => bs "file" | KDir => bs "dir" end).
Definition dec_kind (j : json) : option rkind :=
  match j with
  | JStr s => if beq s (bs "file") then Some KFile else if beq s (bs "dir") then Some KDir else None
  | _ => None
  end.

Section Rename.
  Variable T : list fattr.
  Definition rename_obj (r : rename) : list (bytes * json) :=
         (emit_str (at_ T (bs "path")) (r_path r) ++
          emit_str (at_ T (bs "new_path")) (r_new_path r) ++
          emit_json (at_ T (bs "kind")) (enc_kind (r_kind r)) ++
          emit_optstr (at_ T (bs "coercion_applied")) (r_coercion r)).
  Definition encode_rename (r : rename) : json := JObj (rename_obj r).
  Definition decode_rename (j : json) : option rename :=
    match j with
    | JObj o =>
      match get_str (at_ T (bs "path")) o, get_str (at_ T (bs "new_path")) o,
            get_json (at_ T (bs "kind")) o, get_optstr (at_ T (bs "coercion_applied")) o with
      | Some p, Some np, Some kj, Some c =>
        match dec_kind kj with
        | Some k => Some {| r_path := p; r_new_path := np; r_kind := k; r_coercion := c |}
        | None => None
        end
      | _, _, _, _ => None
      end
    | _ => None
    end.
End Rename.

Fixpoint mapM {A B} (f : A -> option B) (l : list A) : option (list B) :=
  match l with
  | [] => Some []
  | x :: l' => match f x, mapM f l' with Some y, Some ys => Some (y :: ys) | _, _ => None end
  end.

Definition dec_arr {A} (f : json -> option A) (j : json) : option (list A) :=
  match j with JArr l => mapM f l | _ => None end.
Definition dec_str (j : json) : option bytes := match j with JStr s => Some s | _ => None end.
Definition dec_num (j : json) : option N := match j with JNum n => Some n | _ => None end.

Section Stats.
  Variable T : list fattr.
  Definition stats_obj (s : stats) : list (bytes * json) :=
         (emit_num (at_ T (bs "files_scanned")) (st_files_scanned s) ++
          emit_num (at_ T (bs "total_matches")) (st_total_matches s) ++
          emit_json (at_ T (bs "matches_by_variant"))
             (JObj (map (fun kv => (fst kv, JNum (snd kv))) (st_by_variant s))) ++
          emit_num (at_ T (bs "files_with_matches")) (st_files_with_matches s)).
  Definition encode_stats (s : stats) : json := JObj (stats_obj s).
  Definition dec_kv (kv : bytes * json) : option (bytes * N) :=
    match snd kv with JNum n => Some (fst kv, n) | _ => None end.
  Definition decode_stats (j : json) : option stats :=
    match j with
    | JObj o =>
      match get_num (at_ T (bs "files_scanned")) o, get_num (at_ T (bs "total_matches")) o,
            get_json (at_ T (bs "matches_by_variant")) o, get_num (at_ T (bs "files_with_matches")) o with
      | Some a, Some b, Some (JObj m), Some d =>
        match mapM dec_kv m with
        | Some kvs => Some {| st_files_scanned := a; st_total_matches := b; st_by_variant := kvs;
                              st_files_with_matches := d |}
        | None => None
        end
      | _, _, _, _ => None
      end
    | _ => None
    end.
End Stats.

Section Plan.
  Variables TP TH TR TS : list fattr.
  Definition skips_optlist {A} (a : fattr) (o : option (list A)) := skips_opt a o.
  Definition plan_obj (p : plan) : list (bytes * json) :=
         (emit_str (at_ TP (bs "id")) (p_id p) ++
          emit_str (at_ TP (bs "created_at")) (p_created_at p) ++
          emit_str (at_ TP (bs "search")) (p_search p) ++
          emit_str (at_ TP (bs "replace")) (p_replace p) ++
          emit_json (at_ TP (bs "styles")) (JArr (map JStr (p_styles p))) ++
          emit_json (at_ TP (bs "includes")) (JArr (map JStr (p_includes p))) ++
          emit_json (at_ TP (bs "excludes")) (JArr (map JStr (p_excludes p))) ++
          emit_json (at_ TP (bs "matches")) (JArr (map (encode_hunk TH) (p_matches p))) ++
          emit_json (at_ TP (bs "paths")) (JArr (map (encode_rename TR) (p_paths p))) ++
          emit_json (at_ TP (bs "stats")) (encode_stats TS (p_stats p)) ++
          emit_str (at_ TP (bs "version")) (p_version p) ++
          emit (skips_opt (at_ TP (bs "created_directories")) (p_created_dirs p))
               (at_ TP (bs "created_directories"))
               (enc_opt (fun l => JArr (map JStr l)) (p_created_dirs p))).
  Definition encode_plan (p : plan) : json := JObj (plan_obj p).

  Definition get_optlist (a : fattr) (o : list (bytes * json)) : option (option (list bytes)) :=
    match lookup (fa_name a) o with
    | Some JNull => Some None
    | Some j => match dec_arr dec_str j with Some l => Some (Some l) | None => None end
    | None => Some None
    end.

  Definition decode_plan (j : json) : option plan :=
    match j with
    | JObj o =>
      match get_str (at_ TP (bs "id")) o, get_str (at_ TP (bs "created_at")) o,
            get_str (at_ TP (bs "search")) o, get_str (at_ TP (bs "replace")) o,
            get_json (at_ TP (bs "styles")) o, get_json (at_ TP (bs "includes")) o,
            get_json (at_ TP (bs "excludes")) o, get_json (at_ TP (bs "matches")) o,
            get_json (at_ TP (bs "paths")) o, get_json (at_ TP (bs "stats")) o,
            get_str (at_ TP (bs "version")) o, get_optlist (at_ TP (bs "created_directories")) o with
      | Some i, Some ca, Some se, Some re, Some sj, Some ij, Some ej, Some mj, Some pj, Some stj,
        Some ve, Some cd =>
        match dec_arr dec_str sj, dec_arr dec_str ij, dec_arr dec_str ej,
              dec_arr (decode_hunk TH) mj, dec_arr (decode_rename TR) pj, decode_stats TS stj with
        | Some st, Some inc, Some exc, Some ms, Some ps, Some sts =>
          Some {| p_id := i; p_created_at := ca; p_search := se; p_replace := re; p_styles := st;
                  p_includes := inc; p_excludes := exc; p_matches := ms; p_paths := ps;
                  p_stats := sts; p_version := ve; p_created_dirs := cd |}
        | _, _, _, _, _, _ => None
        end
      | _, _, _, _, _, _, _, _, _, _, _, _ => None
      end
    | _ => None
    end.
End Plan.

(* the instances the code has today *)
Definition enc_plan := encode_plan gen_plan gen_matchhunk gen_rename gen_stats.
Definition dec_plan := decode_plan gen_plan gen_matchhunk gen_rename gen_stats.
