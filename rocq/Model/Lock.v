(* Model/Lock.v — the workspace lock protocol of lock.rs at file-system-call granularity, for any
   number of processes and any interleaving.  Executable, no proofs. *)
From Coq Require Export List Arith Bool Lia.
Export ListNotations.

Definition pid := nat.

(* what the lock file holds *)
Inductive content :=
| CEmpty                         (* created but not yet written (or crash between the two) *)
| CNoColon                       (* text without exactly one ':' : parts.len() <> 2 *)
| CGarbageColon                  (* "x:y" that does not parse: pid 0, timestamp 0 *)
| CValid (owner : pid) (ts : nat).

(* program counter of one process running a lock-taking command *)
Inductive pc :=
| PStart                         (* about to call lock_path.exists() *)
| PSawExists                     (* exists() returned true; about to open+read *)
| PRead (c : content)            (* holds the content it read; about to decide *)
| PRemove                        (* decided stale/orphaned; about to remove_file *)
| PCreate                        (* about to create the lock file with its content (write temp + hard_link) *)
| PWrite                         (* unused since the lock is created with its content; kept for the old protocol *)
| PCritical                      (* lock acquired: performing the mutating command *)
| PDropCheck                     (* Drop: about to call path.exists() *)
| PDropRemove                    (* Drop: exists() was true; about to remove_file *)
| PDone (acquired : bool).       (* exited (acquired tells whether it ever held the lock) *)

Record world := {
  lock : option content;         (* None = no lock file *)
  now : nat;                     (* clock, seconds *)
  procs : list (pid * pc);       (* every process that takes part *)
  dead : list pid                (* processes that no longer run (exited or crashed) *)
}.

Definition stale_secs := 300.

Fixpoint get_pc (ps : list (pid * pc)) (p : pid) : option pc :=
  match ps with
  | [] => None
  | (q, c) :: ps' => if Nat.eqb q p then Some c else get_pc ps' p
  end.
Fixpoint set_pc (ps : list (pid * pc)) (p : pid) (c : pc) : list (pid * pc) :=
  match ps with
  | [] => []
  | (q, c0) :: ps' => if Nat.eqb q p then (q, c) :: ps' else (q, c0) :: set_pc ps' p c
  end.

Definition is_dead (w : world) (p : pid) : bool := existsb (Nat.eqb p) (dead w).
(* kill(pid, 0): a process is "running" unless it is in the dead list; pid 0 is never running *)
Definition running (w : world) (p : pid) : bool := negb (Nat.eqb p 0) && negb (is_dead w p).

Definition upd (w : world) (p : pid) (c : pc) (l : option content) : world :=
  {| lock := l; now := now w; procs := set_pc (procs w) p c; dead := dead w |}.
Definition finish (w : world) (p : pid) (acq : bool) (l : option content) : world :=
  {| lock := l; now := now w; procs := set_pc (procs w) p (PDone acq); dead := p :: dead w |}.

(* one file-system call (or the decision after a read) of process p *)
Definition step (w : world) (p : pid) : option world :=
  match get_pc (procs w) p with
  | None => None
  | Some c =>
    match c with
    | PStart =>
        match lock w with
        | Some _ => Some (upd w p PSawExists (lock w))
        | None => Some (upd w p PCreate (lock w))
        end
    | PSawExists =>
        match lock w with
        | Some x => Some (upd w p (PRead x) (lock w))
        | None => Some (finish w p false (lock w))          (* open fails: error exit *)
        end
    | PRead x =>
        match x with
        | CEmpty | CNoColon => Some (upd w p PCreate (lock w))     (* parts.len() <> 2: fall through *)
        | CGarbageColon =>                                         (* pid 0, ts 0 *)
            if Nat.ltb stale_secs (now w - 0) then Some (upd w p PRemove (lock w))
            else if running w 0 then Some (finish w p false (lock w))
            else Some (upd w p PRemove (lock w))
        | CValid o ts =>
            if Nat.ltb stale_secs (now w - ts) then Some (upd w p PRemove (lock w))
            else if running w o then Some (finish w p false (lock w))   (* "Another renamify process" *)
            else Some (upd w p PRemove (lock w))
        end
    | PRemove =>
        match lock w with
        | Some _ => Some (upd w p PCreate None)             (* remove_file: whatever is there now *)
        | None => Some (finish w p false None)              (* already gone: error exit *)
        end
    | PCreate =>
        match lock w with
        | None => Some (upd w p PCritical (Some (CValid p (now w))))   (* hard_link of the written temp file *)
        | Some _ => Some (finish w p false (lock w))        (* EEXIST: error exit *)
        end
    | PWrite =>
        match lock w with
        | Some _ => Some (upd w p PCritical (Some (CValid p (now w))))   (* write through the open fd *)
        | None => Some (upd w p PCritical None)             (* file was unlinked under us: write goes nowhere *)
        end
    | PCritical => Some (upd w p PDropCheck (lock w))       (* command finished: Drop runs *)
    | PDropCheck =>
        match lock w with
        | Some _ => Some (upd w p PDropRemove (lock w))
        | None => Some (finish w p true None)
        end
    | PDropRemove => Some (finish w p true None)            (* remove_file, errors ignored *)
    | PDone _ => None
    end
  end.

(* environment steps: the clock advances; a process crashes (SIGKILL) wherever it is *)
Inductive ev := Step (p : pid) | Tick (n : nat) | Crash (p : pid).

Definition exec1 (w : world) (e : ev) : option world :=
  match e with
  | Step p => step w p
  | Tick n => Some {| lock := lock w; now := now w + n; procs := procs w; dead := dead w |}
  | Crash p =>
      match get_pc (procs w) p with
      | Some (PDone _) | None => None
      | Some c => Some {| lock := lock w; now := now w;
                          procs := set_pc (procs w) p (PDone (match c with PCritical | PDropCheck | PDropRemove => true | _ => false end));
                          dead := p :: dead w |}
      end
  end.

Fixpoint exec (w : world) (es : list ev) : option world :=
  match es with
  | [] => Some w
  | e :: es' => match exec1 w e with Some w' => exec w' es' | None => None end
  end.

(* a process holds the lock from the successful creation until its Drop has run *)
Definition holding_pc (c : pc) : bool :=
  match c with PWrite | PCritical | PDropCheck | PDropRemove => true | _ => false end.
Definition critical_pc (c : pc) : bool := match c with PCritical => true | _ => false end.

Definition holders (w : world) : list pid :=
  map fst (filter (fun pc_ => holding_pc (snd pc_)) (procs w)).
Definition in_critical (w : world) : list pid :=
  map fst (filter (fun pc_ => critical_pc (snd pc_)) (procs w)).

Definition mutex (w : world) : bool := Nat.leb (length (in_critical w)) 1.

Definition init (l : option content) (t : nat) (ps : list pid) : world :=
  {| lock := l; now := t; procs := map (fun p => (p, PStart)) ps; dead := [] |}.

(* reachability by any schedule *)
Definition reachable (w0 w : world) : Prop := exists es, exec w0 es = Some w.
