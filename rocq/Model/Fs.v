(* Model/Fs.v — a POSIX-like file-system model: association list from paths (component lists,
   relative to the workspace root) to nodes.  Executable, no proofs. *)
From RN Require Export Base.Bytes.

Definition name := bytes.
Definition path := list name.

Inductive node :=
| File (mode : N) (content : bytes)
| Dir (mode : N)
| Link (target : bytes).

Definition fs := list (path * node).

Inductive errno := ENOENT | EEXIST | ENOTEMPTY | ENOTDIR | EISDIR | EINVAL | EINJECTED.

Inductive fres (A : Type) := FOk (a : A) | FErr (e : errno).
Arguments FOk {A} a.
Arguments FErr {A} e.

Fixpoint path_eqb (p q : path) : bool :=
  match p, q with
  | [], [] => true
  | a :: p', b :: q' => beq a b && path_eqb p' q'
  | _, _ => false
  end.

(* p is a (not necessarily proper) prefix of q, component-wise: Path::strip_prefix succeeds *)
Fixpoint path_prefix (p q : path) : bool :=
  match p, q with
  | [], _ => true
  | a :: p', b :: q' => beq a b && path_prefix p' q'
  | _ :: _, [] => false
  end.

Definition proper_prefix (p q : path) : bool := path_prefix p q && negb (path_eqb p q).

Fixpoint lookup (t : fs) (p : path) : option node :=
  match t with
  | [] => None
  | (q, n) :: t' => if path_eqb q p then Some n else lookup t' p
  end.

Definition exists_ (t : fs) (p : path) : bool :=
  match p with [] => true | _ => match lookup t p with Some _ => true | None => false end end.

Definition is_dir (t : fs) (p : path) : bool :=
  match p with [] => true | _ => match lookup t p with Some (Dir _) => true | _ => false end end.

Definition parent (p : path) : path := removelast p.

Definition has_children (t : fs) (p : path) : bool := existsb (fun e => proper_prefix p (fst e)) t.

Definition remove (t : fs) (p : path) : fs := filter (fun e => negb (path_eqb (fst e) p)) t.

(* re-base q from src to dst when src is a prefix of q *)
Definition rebase (src dst q : path) : path :=
  if path_prefix src q then dst ++ skipn (length src) q else q.

(* rename(2): replaces an existing file/symlink or an EMPTY directory (dir over dir);
   the destination's parent must be an existing directory *)
Definition rename_fs (src dst : path) (t : fs) : fres fs :=
  match src, dst with
  | [], _ | _, [] => FErr EINVAL
  | _, _ =>
  match lookup t src with
  | None => FErr ENOENT
  | Some n =>
      if negb (is_dir t (parent dst)) then
        (if exists_ t (parent dst) then FErr ENOTDIR else FErr ENOENT)
      else if path_eqb src dst then FOk t
      else if path_prefix src dst then FErr EINVAL
      else
        match lookup t dst with
        | None => FOk (map (fun e => (rebase src dst (fst e), snd e)) t)
        | Some d =>
            match n, d with
            | Dir _, Dir _ =>
                if has_children t dst then FErr ENOTEMPTY
                else FOk (map (fun e => (rebase src dst (fst e), snd e)) (remove t dst))
            | Dir _, _ => FErr ENOTDIR
            | _, Dir _ => FErr EISDIR
            | _, _ => FOk (map (fun e => (rebase src dst (fst e), snd e)) (remove t dst))
            end
        end
  end
  end.

(* open(O_WRONLY|O_CREAT|O_EXCL, 0666 & ~umask(022)) — OpenOptions::create_new, which is how apply.rs creates both its
   temporary file (since repo fix "create the temp file with create_new") and the case-sensitivity probe: an existing entry of
   any kind, a symlink included (O_EXCL does not follow it), makes the call fail and is left alone *)
Definition create_fs (p : path) (t : fs) : fres fs :=
  if negb (is_dir t (parent p)) then FErr ENOENT
  else match lookup t p with
       | Some _ => FErr EEXIST
       | None => FOk ((p, File 420 []) :: t)      (* 0644 *)
       end.

Definition append_fs (p : path) (data : bytes) (t : fs) : fres fs :=
  match lookup t p with
  | Some (File m c) => FOk ((p, File m (c ++ data)) :: remove t p)
  | _ => FErr ENOENT
  end.

Definition chmod_fs (p : path) (m : N) (t : fs) : fres fs :=
  match lookup t p with
  | Some (File _ c) => FOk ((p, File m c) :: remove t p)
  | Some (Dir _) => FOk ((p, Dir m) :: remove t p)
  | _ => FErr ENOENT
  end.

Definition mkdir_fs (p : path) (t : fs) : fres fs :=
  if exists_ t p then FErr EEXIST
  else if negb (is_dir t (parent p)) then FErr ENOENT
  else FOk ((p, Dir 493) :: t).                   (* 0755 *)

Definition unlink_fs (p : path) (t : fs) : fres fs :=
  match lookup t p with
  | Some (Dir _) => FErr EISDIR
  | Some _ => FOk (remove t p)
  | None => FErr ENOENT
  end.

Definition rmdir_fs (p : path) (t : fs) : fres fs :=
  match lookup t p with
  | Some (Dir _) => if has_children t p then FErr ENOTEMPTY else FOk (remove t p)
  | Some _ => FErr ENOTDIR
  | None => FErr ENOENT
  end.

(* mutating operations at system-call granularity *)
Inductive mop :=
| MCreate (p : path)
| MWrite (p : path) (data : bytes)
| MChmod (p : path) (m : N)
| MRename (src dst : path)
| MMkdir (p : path)
| MUnlink (p : path)
| MRmdir (p : path)
| MSync (p : path).

Definition exec_mop (o : mop) (t : fs) : fres fs :=
  match o with
  | MCreate p => create_fs p t
  | MWrite p d => append_fs p d t
  | MChmod p m => chmod_fs p m t
  | MRename s d => rename_fs s d t
  | MMkdir p => mkdir_fs p t
  | MUnlink p => unlink_fs p t
  | MRmdir p => rmdir_fs p t
  | MSync _ => FOk t
  end.

(* the user's view: everything outside renamify's own state directory *)
Definition state_dir : name := [46; 114; 101; 110; 97; 109; 105; 102; 121].   (* ".renamify" *)
Definition is_user (p : path) : bool :=
  match p with c :: _ => negb (beq c state_dir) | [] => false end.
Definition user_view (t : fs) : fs := filter (fun e => is_user (fst e)) t.

(* observational equality of trees (order of the association list is irrelevant) *)
Definition node_eqb (a b : node) : bool :=
  match a, b with
  | File m c, File m' c' => (m =? m') && beq c c'
  | Dir m, Dir m' => m =? m'
  | Link x, Link y => beq x y
  | _, _ => false
  end.
Definition onode_eqb (a b : option node) : bool :=
  match a, b with
  | Some x, Some y => node_eqb x y
  | None, None => true
  | _, _ => false
  end.
Definition fs_sub (a b : fs) : bool := forallb (fun e => onode_eqb (Some (snd e)) (lookup b (fst e))) a.
Definition fs_eqb (a b : fs) : bool := fs_sub a b && fs_sub b a.
