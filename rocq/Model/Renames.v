(* Model/Renames.v — rename.rs::plan_renames over an abstract walk listing: which entries get a rename,
   what a rename looks like (only the last component changes), the per-kind switches, duplicate-target
   conflict detection, and de-duplication over several roots.  The computation of the new NAME
   (variant lookup, ambiguity resolver, coercion) is a parameter.  Executable, no proofs. *)
From RN Require Export Base.Bytes Model.Fs Model.ApplyModel.

Record wentry := { en_path : path; en_dir : bool }.

(* str::contains / str::replace on bytes *)
Fixpoint contains (k s : bytes) : bool :=
  match s with
  | [] => match k with [] => true | _ => false end
  | _ :: s' => is_prefix k s || contains k s'
  end.

Fixpoint replace_all (fuel : nat) (k v s : bytes) : bytes :=
  match fuel with
  | O => s
  | S fuel' =>
      match s with
      | [] => []
      | c :: s' =>
          match k with
          | [] => s
          | _ => if is_prefix k s then v ++ replace_all fuel' k v (skipn (length k) s)
                 else c :: replace_all fuel' k v s'
          end
      end
  end.

(* "first key of the sorted mapping contained in the name; replace every occurrence" *)
Fixpoint name_by_map (m : list (bytes * bytes)) (nm : bytes) : option bytes :=
  match m with
  | [] => None
  | (k, v) :: m' => if contains k nm then Some (replace_all (S (length nm)) k v nm) else name_by_map m' nm
  end.

Definition plan_entry (namefn : bytes -> option bytes) (e : wentry) : list aren :=
  match rev (en_path e) with
  | [] => []
  | last :: pre =>
      match namefn last with
      | Some n => if beq n last then [] else [{| ar_path := en_path e; ar_new := rev pre ++ [n]; ar_dir := en_dir e |}]
      | None => []
      end
  end.

Definition plan_listing (namefn : bytes -> option bytes) (rename_files rename_dirs : bool) (l : list wentry) : list aren :=
  flat_map (fun e => if (if en_dir e then rename_dirs else rename_files) then plan_entry namefn e else []) l.

(* several roots: concatenation, each source path once (first wins) *)
Fixpoint dedupe_paths (seen : list path) (rs : list aren) : list aren :=
  match rs with
  | [] => []
  | r :: rs' => if existsb (path_eqb (ar_path r)) seen then dedupe_paths seen rs'
                else r :: dedupe_paths (ar_path r :: seen) rs'
  end.

(* MultipleToOne conflicts: targets that more than one source maps to *)
Definition target_count (rs : list aren) (t : path) : nat := length (filter (fun r => path_eqb (ar_new r) t) rs).
Definition conflict_targets (rs : list aren) : list path :=
  map ar_new (filter (fun r => Nat.ltb 1 (target_count rs (ar_new r))) rs).
Definition without_conflicts (rs : list aren) : list aren :=
  filter (fun r => negb (Nat.ltb 1 (target_count rs (ar_new r)))) rs.
