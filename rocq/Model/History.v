(* Model/History.v — history.rs / id_resolver.rs / undo.rs (eligibility) / apply.rs (id check) as a
   state machine over command sequences.  The tree is abstracted to the multiset of operations
   whose effect is currently in it (the tie uses operations on disjoint files, so effects commute).
   Executable, no proofs. *)
From Coq Require Export List Arith Bool Lia Permutation.
Export ListNotations.

(* the parameters of a rename (search, replacement, options), hashed; [feeds] = the replacement
   contains the search term, so the same rename finds matches again after it has been applied *)
Record params := { pp : nat; feeds : bool }.
Definition params_eqb (a b : params) : bool := Nat.eqb (pp a) (pp b) && Bool.eqb (feeds a) (feeds b).

(* ids: sha256(search, replace, options, second)[..16] — an injective hash is assumed;
   "revert-<id>-<secs>", "redo-<id>-<secs>" *)
Inductive ident :=
| IdPlan (p : params) (sec : nat)
| IdRevert (of_ : ident) (sec : nat)
| IdRedo (of_ : ident) (sec : nat).

Fixpoint ident_eqb (a b : ident) : bool :=
  match a, b with
  | IdPlan p s, IdPlan q t => params_eqb p q && Nat.eqb s t
  | IdRevert x s, IdRevert y t => ident_eqb x y && Nat.eqb s t
  | IdRedo x s, IdRedo y t => ident_eqb x y && Nat.eqb s t
  | _, _ => false
  end.

Fixpoint params_of (i : ident) : params :=
  match i with IdPlan p _ => p | IdRevert x _ => params_of x | IdRedo x _ => params_of x end.

Record entry := { e_id : ident; e_revert_of : option ident }.

Record hstate := { h_hist : list entry; h_tree : list params }.
Definition h_init : hstate := {| h_hist := []; h_tree := [] |}.

Inductive ref := RLatest | RId (i : ident).
Inductive cmd := CRename (p : params) | CUndo (r : ref) | CRedo (r : ref).
Inductive outcome := Succeeded | Rejected | NothingToDo.

Definition has_id (h : list entry) (i : ident) : bool := existsb (fun e => ident_eqb (e_id e) i) h.
Definition reverted (h : list entry) (i : ident) : bool :=
  existsb (fun e => match e_revert_of e with Some j => ident_eqb j i | None => false end) h.
Definition is_redo_of (i : ident) (j : ident) : bool :=
  match j with IdRedo x _ => ident_eqb x i | _ => false end.
Definition redone (h : list entry) (i : ident) : bool := existsb (fun e => is_redo_of i (e_id e)) h.
Definition find_entry (h : list entry) (i : ident) : option entry :=
  find (fun e => ident_eqb (e_id e) i) h.

(* remove one occurrence *)
Fixpoint remove_one (p : params) (t : list params) : list params :=
  match t with
  | [] => []
  | q :: t' => if params_eqb p q then t' else q :: remove_one p t'
  end.
Definition applied_in_tree (p : params) (t : list params) : bool := existsb (params_eqb p) t.

(* id_resolver.rs *)
Definition resolve (h : list entry) (undo : bool) (r : ref) : option ident :=
  match r with
  | RId i => if has_id h i then Some i else None
  | RLatest =>
      if undo then
        match find (fun e => match e_revert_of e with None => true | Some _ => false end) (rev h) with
        | Some e => Some (e_id e)
        | None => None
        end
      else
        match find (fun e => match e_revert_of e with Some _ => true | None => false end) (rev h) with
        | Some e => e_revert_of e
        | None => None
        end
  end.

Definition push (s : hstate) (e : entry) (t : list params) : hstate :=
  {| h_hist := h_hist s ++ [e]; h_tree := t |}.

Definition step (s : hstate) (c : cmd) (sec : nat) : hstate * outcome :=
  match c with
  | CRename p =>
      (* nothing to rename when the term is no longer in the tree *)
      if applied_in_tree p (h_tree s) && negb (feeds p) then (s, NothingToDo)
      else
        let id := IdPlan p sec in
        if has_id (h_hist s) id then (s, Rejected)           (* colliding id: refused before any change *)
        else (push s {| e_id := id; e_revert_of := None |} (p :: h_tree s), Succeeded)
  | CUndo r =>
      match resolve (h_hist s) true r with
      | None => (s, Rejected)
      | Some id =>
          match find_entry (h_hist s) id with
          | None => (s, Rejected)
          | Some e =>
              match e_revert_of e with
              | Some _ => (s, Rejected)                      (* is itself a revert *)
              | None =>
                  if reverted (h_hist s) id then (s, Rejected)   (* has already been reverted *)
                  else
                    let rid := IdRevert id sec in
                    if has_id (h_hist s) rid then (s, Rejected)
                    else (push s {| e_id := rid; e_revert_of := Some id |} (remove_one (params_of id) (h_tree s)),
                          Succeeded)
              end
          end
      end
  | CRedo r =>
      match resolve (h_hist s) false r with
      | None => (s, Rejected)
      | Some id =>
          if negb (has_id (h_hist s) id) then (s, Rejected)
          else if negb (reverted (h_hist s) id) then (s, Rejected)   (* has not been reverted *)
          else if redone (h_hist s) id then (s, Rejected)            (* has already been redone *)
          else
            let nid := IdRedo id sec in
            if has_id (h_hist s) nid then (s, Rejected)
            else (push s {| e_id := nid; e_revert_of := None |} (params_of id :: h_tree s), Succeeded)
      end
  end.

Fixpoint run (s : hstate) (cs : list (cmd * nat)) : hstate * list outcome :=
  match cs with
  | [] => (s, [])
  | (c, sec) :: cs' =>
      let (s1, o) := step s c sec in
      let (s2, os) := run s1 cs' in
      (s2, o :: os)
  end.

(* ---- the abstract reading of the history (the specification side) ---- *)
(* an operation entry (apply or redo) is live while no revert entry points at it *)
Definition live_ids (h : list entry) : list ident :=
  map e_id (filter (fun e => match e_revert_of e with
                             | None => negb (reverted h (e_id e))
                             | Some _ => false
                             end) h).
Definition implied_tree (h : list entry) : list params := map params_of (live_ids h).
Definition ids (h : list entry) : list ident := map e_id h.

(* the behaviour before the repairs, to state what was wrong: no "already redone" check, and the
   colliding id was detected only after the tree had been changed *)
Definition step_old (s : hstate) (c : cmd) (sec : nat) : hstate * outcome :=
  match c with
  | CRename p =>
      if applied_in_tree p (h_tree s) && negb (feeds p) then (s, NothingToDo)
      else
        let id := IdPlan p sec in
        if has_id (h_hist s) id then ({| h_hist := h_hist s; h_tree := p :: h_tree s |}, Rejected)
        else (push s {| e_id := id; e_revert_of := None |} (p :: h_tree s), Succeeded)
  | CRedo r =>
      match resolve (h_hist s) false r with
      | None => (s, Rejected)
      | Some id =>
          if negb (has_id (h_hist s) id) then (s, Rejected)
          else if negb (reverted (h_hist s) id) then (s, Rejected)
          else
            let nid := IdRedo id sec in
            if has_id (h_hist s) nid then ({| h_hist := h_hist s; h_tree := params_of id :: h_tree s |}, Rejected)
            else (push s {| e_id := nid; e_revert_of := None |} (params_of id :: h_tree s), Succeeded)
      end
  | _ => step s c sec
  end.
