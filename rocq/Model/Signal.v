(* Model/Signal.v — main.rs signal handling around a mutating command.
   SIGINT (ctrlc handler thread) and SIGTERM (signal_hook): while the confirmation prompt is active
   SIGINT releases the held lock and exits 130 at once; otherwise the handler only sets a flag
   (repeated signals set it again) and main exits 130 after the command has returned.
   Executable, no proofs. *)
From RN Require Export Base.Bytes Model.Fs.

Inductive sstep :=
| SOp (o : mop)            (* a mutating file-system operation of the command *)
| SPromptBegin             (* get_user_confirmation: ConfirmationPromptGuard::activate *)
| SPromptEnd (yes : bool)  (* the answer; the guard is dropped *)
| SLockAcquire             (* LockFile::acquire succeeded *)
| SLockRelease.            (* Drop for LockFile *)

Inductive sig := SigInt | SigTerm.

Record sstate := {
  g_fs : fs; g_flag : bool; g_prompt : bool; g_lock : bool; g_exit : option nat; g_done : list mop }.

Definition s0 (t : fs) : sstate :=
  {| g_fs := t; g_flag := false; g_prompt := false; g_lock := false; g_exit := None; g_done := [] |}.

(* delivery of one signal *)
Definition deliver (s : sstate) (x : sig) : sstate :=
  match g_exit s with
  | Some _ => s
  | None =>
      match x with
      | SigInt =>
          if g_prompt s then
            (* "Operation cancelled by user": release_held_lock_for_exit, process::exit(130) *)
            {| g_fs := g_fs s; g_flag := g_flag s; g_prompt := g_prompt s; g_lock := false;
               g_exit := Some 130%nat; g_done := g_done s |}
          else {| g_fs := g_fs s; g_flag := true; g_prompt := g_prompt s; g_lock := g_lock s;
                  g_exit := None; g_done := g_done s |}
      | SigTerm =>
          {| g_fs := g_fs s; g_flag := true; g_prompt := g_prompt s; g_lock := g_lock s;
             g_exit := None; g_done := g_done s |}
      end
  end.

(* one step of the command; [declined] = the user answered no: the command returns without ops *)
Definition exec_step (s : sstate) (st : sstep) : sstate * bool :=
  match g_exit s with
  | Some _ => (s, false)
  | None =>
      match st with
      | SOp o =>
          match exec_mop o (g_fs s) with
          | FOk t' => ({| g_fs := t'; g_flag := g_flag s; g_prompt := g_prompt s; g_lock := g_lock s;
                          g_exit := None; g_done := g_done s ++ [o] |}, true)
          | FErr _ => (s, false)                       (* the command fails here (C04's business) *)
          end
      | SPromptBegin => ({| g_fs := g_fs s; g_flag := g_flag s; g_prompt := true; g_lock := g_lock s;
                            g_exit := None; g_done := g_done s |}, true)
      | SPromptEnd yes => ({| g_fs := g_fs s; g_flag := g_flag s; g_prompt := false; g_lock := g_lock s;
                              g_exit := None; g_done := g_done s |}, yes)
      | SLockAcquire => ({| g_fs := g_fs s; g_flag := g_flag s; g_prompt := g_prompt s; g_lock := true;
                            g_exit := None; g_done := g_done s |}, true)
      | SLockRelease => ({| g_fs := g_fs s; g_flag := g_flag s; g_prompt := g_prompt s; g_lock := false;
                            g_exit := None; g_done := g_done s |}, true)
      end
  end.

(* run the program; [sigs i] = the signals that arrive just before step i *)
Fixpoint run_prog (prog : list sstep) (i : nat) (sigs : nat -> list sig) (s : sstate) : sstate :=
  match prog with
  | [] => s
  | st :: rest =>
      let s1 := fold_left deliver (sigs i) s in
      let (s2, continue_) := exec_step s1 st in
      if continue_ then run_prog rest (S i) sigs s2
      else
        (* the command returns early (declined, failed or already exited): destructors run unless
           the process has exited from the handler *)
        match g_exit s2 with
        | Some _ => s2
        | None => {| g_fs := g_fs s2; g_flag := g_flag s2; g_prompt := false; g_lock := false;
                     g_exit := None; g_done := g_done s2 |}
        end
  end.

(* main's tail: "if interrupted { exit(130) }" else the command's own status *)
Definition final_exit (s : sstate) (own : nat) : nat :=
  match g_exit s with
  | Some c => c
  | None => if g_flag s then 130%nat else own
  end.

Definition no_sigs : nat -> list sig := fun _ => [].
