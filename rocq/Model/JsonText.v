(* Model/JsonText.v — the TEXT layer of serde_json, over the [json] trees of Model/Serde.v:
     print_pretty   serde_json::to_string_pretty   (ser::PrettyFormatter, two-space indent)
     print_compact  serde_json::to_string          (ser::CompactFormatter)
     parse          serde_json::from_str           (de::Deserializer over a &str, restricted to what a plan file needs)
   renamify writes a plan with to_string_pretty (apply.rs:971, history.rs:215) and reads it back with
   fs::read_to_string + serde_json::from_str (undo.rs:153-154, 401-402).
   Executable, no proofs (Proofs/JsonTextP.v).  Byte strings are [list N]; text is UTF-8 and passes through
   byte for byte.

   WHAT [parse] ACCEPTS.  RFC 8259 with these restrictions, each of which makes [parse] answer None (never a
   different value):
     * numbers: only unsigned decimal integers without sign, fraction or exponent, and only up to u64::MAX
       (serde_json turns a larger integer into an f64, and [json] has no floats); "-0", "-1", "1.0", "1e2" -> None;
     * \uXXXX escapes: only code points below 0x80 (either hex case); anything else, surrogate pairs included -> None;
   and with serde_json's own restrictions, which are not in the RFC:
     * leading zeros are an error ("01"); a control byte below 0x20 inside a string is an error;
     * containers nest at most 127 deep (Deserializer::remaining_depth starts at 128 and the check fails when the
       decrement reaches 0: 127 nested '[' parse, 128 do not) — [max_depth];
     * nothing but whitespace may follow the value; whitespace is space, \t, \n, \r.
   NOT modelled: UTF-8 validation.  from_str takes a &str, so its argument IS valid UTF-8 (read_to_string has
   already failed otherwise); [parse] works on bytes and lets any byte >= 0x20 other than the double quote and the backslash through inside
   a string.  On a text that is not valid UTF-8 [parse] may therefore answer where serde_json::from_slice refuses.
   Objects are returned as association lists in the order of the text, duplicate keys kept (serde_json::Value
   keeps the last one and sorts the keys; a derived struct refuses a duplicate field). *)
From Coq Require Import Decimal.
From RN Require Import Base.Bytes Model.Serde.
Open Scope N_scope.

(* ------------------------------------------------------------------ printing *)

(* ser.rs: static ESCAPE: [u8; 256] and format_escaped_str_contents / write_char_escape:
   the double quote and the backslash get a backslash, 08 09 0A 0C 0D their letter, every other byte below 0x20 becomes \u00XX with
   lower-case hex digits (HEX_DIGITS = b"0123456789abcdef"); everything else, 0x7F and the bytes of multi-byte
   UTF-8 sequences included, is copied. *)
Definition hexdig (n : N) : N := if n <? 10 then 48 + n else 87 + n.

Definition esc_byte (c : N) : bytes :=
  if c =? 34 then [92; 34]
  else if c =? 92 then [92; 92]
  else if c <? 32 then
    if c =? 8 then [92; 98]
    else if c =? 9 then [92; 116]
    else if c =? 10 then [92; 110]
    else if c =? 12 then [92; 102]
    else if c =? 13 then [92; 114]
    else [92; 117; 48; 48; hexdig (c / 16); hexdig (c mod 16)]
  else [c].

Definition print_string (s : bytes) : bytes := 34 :: flat_map esc_byte s ++ [34].

(* itoa: plain decimal, no sign, no leading zeros, "0" for zero *)
Fixpoint uint_bytes (u : uint) : bytes :=
  match u with
  | Nil => []
  | D0 u => 48 :: uint_bytes u | D1 u => 49 :: uint_bytes u | D2 u => 50 :: uint_bytes u
  | D3 u => 51 :: uint_bytes u | D4 u => 52 :: uint_bytes u | D5 u => 53 :: uint_bytes u
  | D6 u => 54 :: uint_bytes u | D7 u => 55 :: uint_bytes u | D8 u => 56 :: uint_bytes u
  | D9 u => 57 :: uint_bytes u
  end.
Definition print_num (n : N) : bytes := uint_bytes (N.to_uint n).

(* The two formatters differ only in what they put before an element / a key / a closing bracket of a
   non-empty container ([f_nl], at a given nesting level) and after a key ([f_colon]).
     PrettyFormatter::begin_array_value / begin_object_key: "\n" (first) or ",\n", then indent * current_indent;
       end_array / end_object: current_indent -= 1, and when the container had a value "\n" + indent; begin_object_value ": "
     CompactFormatter: "," between values, ":" after a key, nothing else.
   Empty containers are "[]" and "{}" in both. *)
Record fmt := { f_nl : nat -> bytes; f_colon : bytes }.
Definition pretty_fmt : fmt := {| f_nl := fun ind => 10 :: repeat 32 (2 * ind)%nat; f_colon := [58; 32] |}.
Definition compact_fmt : fmt := {| f_nl := fun _ => []; f_colon := [58] |}.

Fixpoint print_fmt (F : fmt) (ind : nat) (j : json) : bytes :=
  match j with
  | JNull => [110; 117; 108; 108]
  | JBool true => [116; 114; 117; 101]
  | JBool false => [102; 97; 108; 115; 101]
  | JNum n => print_num n
  | JStr s => print_string s
  | JArr l =>
    match l with
    | [] => [91; 93]
    | _ => 91 :: join [44] (map (fun e => f_nl F (S ind) ++ print_fmt F (S ind) e) l) ++ f_nl F ind ++ [93]
    end
  | JObj l =>
    match l with
    | [] => [123; 125]
    | _ => 123 :: join [44] (map (fun kv => let '(k, v) := kv in
                                            f_nl F (S ind) ++ print_string k ++ f_colon F ++ print_fmt F (S ind) v) l)
               ++ f_nl F ind ++ [125]
    end
  end.

Definition print_pretty (j : json) : bytes := print_fmt pretty_fmt 0 j.
Definition print_compact (j : json) : bytes := print_fmt compact_fmt 0 j.

(* ------------------------------------------------------------------ parsing *)

Definition is_ws (c : N) : bool := (c =? 32) || (c =? 10) || (c =? 13) || (c =? 9).
Fixpoint skip_ws (s : bytes) : bytes :=
  match s with
  | c :: s' => if is_ws c then skip_ws s' else s
  | [] => []
  end.

Definition hexval (c : N) : option N :=
  if is_digit c then Some (c - 48)
  else if (97 <=? c) && (c <=? 102) then Some (c - 87)
  else if (65 <=? c) && (c <=? 70) then Some (c - 55)
  else None.

(* read.rs parse_escape: double quote, backslash, slash, b f n r t (and u, handled by the caller) *)
Definition unesc (e : N) : option N :=
  if e =? 34 then Some 34 else if e =? 92 then Some 92 else if e =? 47 then Some 47
  else if e =? 98 then Some 8 else if e =? 102 then Some 12 else if e =? 110 then Some 10
  else if e =? 114 then Some 13 else if e =? 116 then Some 9 else None.

Definition push {A} (x : N) (r : option (bytes * A)) : option (bytes * A) :=
  match r with Some (t, rest) => Some (x :: t, rest) | None => None end.

(* after the opening quote: the unescaped contents and what follows the closing quote *)
Fixpoint parse_str (s : bytes) : option (bytes * bytes) :=
  match s with
  | [] => None
  | c :: s1 =>
    if c =? 34 then Some ([], s1)
    else if c =? 92 then
      match s1 with
      | [] => None
      | e :: s2 =>
        if e =? 117 then
          match s2 with
          | h1 :: h2 :: h3 :: h4 :: s3 =>
            match hexval h1, hexval h2, hexval h3, hexval h4 with
            | Some a, Some b, Some c', Some d =>
              let n := ((a * 16 + b) * 16 + c') * 16 + d in
              if n <? 128 then push n (parse_str s3) else None
            | _, _, _, _ => None
            end
          | _ => None
          end
        else match unesc e with Some x => push x (parse_str s2) | None => None end
      end
    else if c <? 32 then None
    else push c (parse_str s1)
  end.

Definition mk_digit (d : N) (u : uint) : uint :=
  match d with
  | 0 => D0 u | 1 => D1 u | 2 => D2 u | 3 => D3 u | 4 => D4 u
  | 5 => D5 u | 6 => D6 u | 7 => D7 u | 8 => D8 u | _ => D9 u
  end.

(* the maximal run of ASCII digits *)
Fixpoint read_digits (s : bytes) : uint * bytes :=
  match s with
  | c :: s' => if is_digit c then let (u, r) := read_digits s' in (mk_digit (c - 48) u, r) else (Nil, s)
  | [] => (Nil, [])
  end.

Definition u64_max : N := 18446744073709551615.

(* de.rs parse_integer: '0' followed by a digit is InvalidNumber (here: the digit string is not its own
   normal form); a value above u64::MAX becomes an f64 in serde_json (here: None).  A '.', 'e' or 'E' after the
   digits is left in the rest, where no caller accepts it. *)
Definition parse_num (s : bytes) : option (N * bytes) :=
  let (u, r) := read_digits s in
  if uint_beq (unorm u) u then
    let n := N.of_uint u in
    if n <=? u64_max then Some (n, r) else None
  else None.

Definition expect (lit : bytes) (v : json) (s : bytes) : option (json * bytes) :=
  if is_prefix lit s then Some (v, skipn (length lit) s) else None.

(* de.rs SeqAccess::next_element_seed: value, then ',' (and another value: "[1,]" is TrailingComma) or ']'.
   [n] bounds the number of elements; the caller passes the length of the text. *)
Fixpoint parse_elems (P : bytes -> option (json * bytes)) (n : nat) (s : bytes) : option (list json * bytes) :=
  match n with
  | O => None
  | S n' =>
    match P s with
    | None => None
    | Some (e, s1) =>
      match skip_ws s1 with
      | c :: s2 =>
        if c =? 44 then
          match parse_elems P n' s2 with Some (l, s3) => Some (e :: l, s3) | None => None end
        else if c =? 93 then Some ([e], s2)
        else None
      | [] => None
      end
    end
  end.

(* MapAccess::next_key_seed / next_value_seed: a string key, ws, ':', value, ws, then ',' or '}' *)
Fixpoint parse_members (P : bytes -> option (json * bytes)) (n : nat) (s : bytes)
  : option (list (bytes * json) * bytes) :=
  match n with
  | O => None
  | S n' =>
    match skip_ws s with
    | c :: s0 =>
      if c =? 34 then
        match parse_str s0 with
        | None => None
        | Some (k, s1) =>
          match skip_ws s1 with
          | c1 :: s2 =>
            if c1 =? 58 then
              match P s2 with
              | None => None
              | Some (v, s3) =>
                match skip_ws s3 with
                | c2 :: s4 =>
                  if c2 =? 44 then
                    match parse_members P n' s4 with Some (l, s5) => Some ((k, v) :: l, s5) | None => None end
                  else if c2 =? 125 then Some ([(k, v)], s4)
                  else None
                | [] => None
                end
              end
            else None
          | [] => None
          end
        end
      else None
    | [] => None
    end
  end.

Definition parse_arr (P : bytes -> option (json * bytes)) (s1 : bytes) : option (json * bytes) :=
  match skip_ws s1 with
  | c :: s2 =>
    if c =? 93 then Some (JArr [], s2)
    else match parse_elems P (length s1) s1 with Some (l, r) => Some (JArr l, r) | None => None end
  | [] => None
  end.

Definition parse_obj (P : bytes -> option (json * bytes)) (s1 : bytes) : option (json * bytes) :=
  match skip_ws s1 with
  | c :: s2 =>
    if c =? 125 then Some (JObj [], s2)
    else match parse_members P (length s1) s1 with Some (l, r) => Some (JObj l, r) | None => None end
  | [] => None
  end.

(* one value, leading whitespace skipped; [rec] is the parser for the values inside a container, None when the
   recursion limit is reached (de.rs check_recursion!: RecursionLimitExceeded) *)
Definition parse_value_body (rec : option (bytes -> option (json * bytes))) (s : bytes) : option (json * bytes) :=
  match skip_ws s with
  | [] => None
  | c :: s1 =>
    if is_digit c then match parse_num (c :: s1) with Some (n, r) => Some (JNum n, r) | None => None end
    else if c =? 34 then match parse_str s1 with Some (t, r) => Some (JStr t, r) | None => None end
    else if c =? 91 then match rec with Some P => parse_arr P s1 | None => None end
    else if c =? 123 then match rec with Some P => parse_obj P s1 | None => None end
    else if c =? 110 then expect [110; 117; 108; 108] JNull (c :: s1)
    else if c =? 116 then expect [116; 114; 117; 101] (JBool true) (c :: s1)
    else if c =? 102 then expect [102; 97; 108; 115; 101] (JBool false) (c :: s1)
    else None
  end.

(* [d] = how many more containers may be entered *)
Fixpoint parse_value (d : nat) (s : bytes) : option (json * bytes) :=
  parse_value_body (match d with O => None | S d' => Some (parse_value d') end) s.

Definition max_depth : nat := 127.

Definition parse (s : bytes) : option json :=
  match parse_value max_depth s with
  | Some (j, r) => match skip_ws r with [] => Some j | _ :: _ => None end
  | None => None
  end.

(* ------------------------------------------------------------------ the values serde_json reads back *)

Fixpoint jdepth (j : json) : nat :=
  match j with
  | JArr l => S (fold_right (fun e m => Nat.max (jdepth e) m) O l)
  | JObj l => S (fold_right (fun kv m => Nat.max (let '(_, v) := kv in jdepth v) m) O l)
  | _ => O
  end.

Fixpoint nums_u64 (j : json) : bool :=
  match j with
  | JNum n => n <=? u64_max
  | JArr l => forallb nums_u64 l
  | JObj l => forallb (fun kv => let '(_, v) := kv in nums_u64 v) l
  | _ => true
  end.

(* every number fits a u64 (what a Rust u64/usize field holds; above it serde_json's parser yields a float) and
   the nesting stays within serde_json's recursion limit *)
Definition wf_json (j : json) : Prop := nums_u64 j = true /\ (jdepth j <= max_depth)%nat.

(* ------------------------------------------------------------------ the plan file
   apply.rs:971 `serde_json::to_string_pretty(plan)`; undo.rs:153-154 / 401-402
   `fs::read_to_string(&plan_path)` then `serde_json::from_str::<Plan>(&plan_json)`.
   Caveat (outside the round trip, never produced by save_plan): on a text that repeats a key, [dec_plan] takes the
   first occurrence ([lookup] in Model/Serde.v) where the derived Deserialize of a struct answers
   `duplicate field` and a HashMap keeps the last one. *)
Definition save_plan (p : plan) : bytes := print_pretty (enc_plan p).
Definition load_plan (text : bytes) : option plan :=
  match parse text with Some j => dec_plan j | None => None end.
