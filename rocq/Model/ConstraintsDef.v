(* Model/ConstraintsDef.v — vocabulary of the constraint translator (Gen/GenConstraints.v). *)
From RN Require Export Base.Bytes.
Inductive ccase := AllUpper | AllLower | TitlePat | CamelPat | PascalPat.
