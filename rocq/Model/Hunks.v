(* Model/Hunks.v — what "a plan is internally consistent with the file it describes" means (C03),
   the positional part of scanner.rs::generate_hunks / create_simple_plan, and preview/diff.rs'
   computation of the "after" line (C15).  Executable, no proofs. *)
From RN Require Export Base.Bytes Model.Edits Model.Matcher.

Record fhunk := {
  fh_line : nat;            (* 1-based line number *)
  fh_col : nat;             (* byte_offset: byte column within the line *)
  fh_char : nat;            (* char_offset: characters before the column *)
  fh_start : nat; fh_end : nat;   (* byte offsets in the file *)
  fh_content : bytes; fh_replace : bytes;
  fh_before : option bytes; fh_after : option bytes }.

Fixpoint index_nl (s : bytes) : option nat :=
  match s with
  | [] => None
  | x :: s' => if x =? 10 then Some O else option_map S (index_nl s')
  end.

(* the line (with its terminator, as bstr::lines_with_terminator gives it) containing offset off *)
Definition line_at (c : bytes) (off : nat) : bytes :=
  let rest := skipn (line_start c off) c in
  match index_nl rest with
  | Some i => firstn (S i) rest
  | None => rest
  end.

(* str::lines(): the same line without "\n" / "\r\n" (create_simple_plan) *)
Definition strip_eol (l : bytes) : bytes :=
  match rev l with
  | 10 :: 13 :: r => rev r
  | 10 :: r => rev r
  | _ => l
  end.

(* number of characters (non-continuation bytes) in a valid UTF-8 prefix *)
Definition char_count (s : bytes) : nat := length (filter (fun b => negb (is_cont b)) s).

Definition splice_line (l : bytes) (col : nat) (old new : bytes) : bytes :=
  firstn col l ++ new ++ skipn (col + length old) l.

Definition obeq (a : option bytes) (b : bytes) : bool :=
  match a with Some x => beq x b | None => false end.

(* one hunk against the file content; [with_term]: line context carries the terminator
   (case-aware planners) or not (replace) *)
Definition hunk_ok (with_term : bool) (c : bytes) (h : fhunk) : bool :=
  let l0 := line_at c (fh_start h) in
  let l := if with_term then l0 else strip_eol l0 in
  match str_slice c (fh_start h) (fh_end h) with
  | Some actual => beq actual (fh_content h)
  | None => false
  end &&
  negb (Nat.eqb (fh_start h) (fh_end h)) &&
  Nat.eqb (fh_line h) (line_of c (fh_start h)) &&
  Nat.eqb (fh_col h) (col_of c (fh_start h)) &&
  Nat.eqb (fh_char h) (char_count (firstn (fh_col h) l0)) &&
  negb (existsb (N.eqb 10) (fh_content h)) &&
  obeq (fh_before h) l &&
  obeq (fh_after h) (splice_line l (fh_col h) (fh_content h) (fh_replace h)).

Fixpoint sorted_disjoint (pos : nat) (hs : list fhunk) : bool :=
  match hs with
  | [] => true
  | h :: hs' => Nat.leb pos (fh_start h) && Nat.leb (fh_start h) (fh_end h) && sorted_disjoint (fh_end h) hs'
  end.

Definition file_consistent (with_term : bool) (c : bytes) (hs : list fhunk) : bool :=
  forallb (hunk_ok with_term c) hs && sorted_disjoint 0 hs.

Definition edit_of_hunk (h : fhunk) : edit :=
  {| e_start := fh_start h; e_stop := fh_end h; e_old := fh_content h; e_new := fh_replace h |}.

(* summary counts *)
Definition total_ok (total : nat) (per_file : list (list fhunk)) : bool :=
  Nat.eqb total (length (concat per_file)).
Definition files_with_ok (n : nat) (per_file : list (list fhunk)) : bool :=
  Nat.eqb n (length (filter (fun l => negb (Nat.eqb (length l) 0)) per_file)).

(* ---- the positional part of the planners: from a span list to hunks ---- *)
Definition mk_hunk (with_term : bool) (c : bytes) (start stop : nat) (repl : bytes) : fhunk :=
  let l0 := line_at c start in
  let l := if with_term then l0 else strip_eol l0 in
  let col := col_of c start in
  let old := firstn (stop - start) (skipn start c) in
  {| fh_line := line_of c start; fh_col := col; fh_char := char_count (firstn col l0);
     fh_start := start; fh_end := stop; fh_content := old; fh_replace := repl;
     fh_before := Some l; fh_after := Some (splice_line l col old repl) |}.

(* ---- preview/diff.rs: the "after" text shown for one line ---- *)
(* hunks of one line: one hunk -> its line_after; several -> splice right to left by byte_offset
   under the starts_with guard *)
Fixpoint ins_col_desc (h : fhunk) (l : list fhunk) : list fhunk :=
  match l with
  | [] => [h]
  | x :: l' => if Nat.leb (fh_col x) (fh_col h) then h :: l else x :: ins_col_desc h l'
  end.
Definition sort_col_desc (hs : list fhunk) : list fhunk := fold_right ins_col_desc [] hs.

Definition diff_after (hs : list fhunk) : bytes :=
  match hs with
  | [] => []
  | [h] => match fh_after h with Some a => a | None => fh_replace h end
  | h0 :: _ =>
      let before := match fh_before h0 with Some b => b | None => fh_content h0 end in
      fold_left (fun acc h =>
                   if is_prefix (fh_content h) (skipn (fh_col h) acc) && Nat.ltb (fh_col h) (length acc)
                   then firstn (fh_col h) acc ++ fh_replace h ++ skipn (fh_col h + length (fh_content h)) acc
                   else acc)
                (sort_col_desc hs) before
  end.

(* the line as it reads once the whole plan is applied: the hunks of that line spliced left to right *)
Fixpoint splice_cols (pos : nat) (rest : bytes) (hs : list fhunk) : bytes :=
  match hs with
  | [] => rest
  | h :: hs' =>
      firstn (fh_col h - pos) rest ++ fh_replace h ++
      splice_cols (fh_col h + length (fh_content h)) (skipn (fh_col h + length (fh_content h) - pos) rest) hs'
  end.
Definition line_after_plan (l : bytes) (hs_sorted_by_col : list fhunk) : bytes := splice_cols 0 l hs_sorted_by_col.
