(* Extract/Extract.v — extraction of the executable model to OCaml.
   ExtrOcamlBasic only: bool, option, list, prod, unit, sumbool map to OCaml's; N, positive and
   nat stay extracted inductives. No Extract Constant / Extract Inductive of our own. *)
From Coq Require Extraction.
From Coq Require Import ExtrOcamlBasic.
From RN Require Import Base.Bytes Model.Edits Model.Serde Model.StyleDef Model.CaseModel Gen.GenStyles Gen.GenAcronyms Model.Fs Model.ApplyModel Model.UndoModel Model.Patch Model.Lock Model.History Model.Matcher Model.Hunks Model.Renames Model.ClapDef Model.Clap Model.Wrappers Gen.GenCli Gen.GenWrappers Model.Shapes Model.ShapesTie Gen.GenShapes Model.Constraints Model.Compound Model.Enhanced.

(* uniquely named entry points where two models use the same short name *)
Definition hist_step := History.step.
Definition clap_accepts := accepts gen_globals gen_cli.
Definition compatible_styles := filter_compatible gen_acronyms.
Definition ident_find_all := Enhanced.find_all.

Extraction Language OCaml.
Extraction "model.ml"
  apply_edits_rev spec_splice wf_edits
  enc_plan dec_plan
  parse_to_tokens tokens to_style detect_style variant_map_core variant_map_scanner vmap_to_amap
  plan_listing name_by_map dedupe_paths without_conflicts
  find_matches is_boundary hunk_ok file_consistent diff_after line_after_plan mk_hunk
  hist_step History.h_init History.implied_tree
  Lock.exec1 Lock.init Lock.in_critical Lock.holders
  undo_core undo_steps rewrite_headers rewrite_headers_old diffy_body split_lines
  crash_prefix apply_core spec_apply no_fault one_fault user_view fs_eqb sort_renames final_path
  clap_accepts all_opts gen_builders
  enc_plan_generic conforms_named conforms_expect compat_named compat_expect rdef_keys compatible_styles find_compound_variants ident_find_all find_enhanced_matches
  gen_acronyms gen_all_styles gen_default_styles gen_vm_core_default gen_vm_scanner_default.
