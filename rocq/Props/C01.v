(* Props/C01.v — Undo restores the exact pre-apply tree.  Statements only. *)
From Coq Require Import Strings.String.
From RN Require Import Base.Bytes Base.Str Model.Edits Model.Fs Model.ApplyModel Model.UndoModel Model.Patch.
From RN Require Import Proofs.RenameP Proofs.RenameP2 Proofs.PatchP Proofs.UndoP.
From Coq Require Import Permutation.
From RN Require Import Proofs.ApplySpecP Proofs.UndoSpecP.
Open Scope N_scope.   (* the composition files close it; the byte literals below are N *)

(* --- the text layer: whatever the hunk body is (any lines, including ones that look like headers:
   a deleted line "-- x" is rendered "--- x") and whatever bytes the two file names are made of,
   rewriting the two header lines to the file names and parsing the result with diffy's header
   parser gives back exactly that body --- *)
Theorem C01_rewrite_then_parse_keeps_body : forall from to body,
  body_ok body = true ->
  diffy_body (rewrite_headers from to (render body)) = Some body.
Proof. exact rewrite_then_parse_keeps_body. Qed.

(* a file name, written the way replace_patch_headers writes it (bare, or in the quoted form when it
   contains a tab, newline, NUL, CR, double quote or backslash), is read back by diffy's
   parse_filename as the same bytes: every byte string *)
Theorem C01_header_names_roundtrip : forall n,
  parse_filename (quote_name n ++ [10]) = Some n.
Proof. exact parse_filename_quote. Qed.

(* and both names come out of the header of the rewritten patch *)
Theorem C01_rewrite_then_parse_header : forall from to body,
  body_ok body = true ->
  parse_header_lines None None (skip_preamble (split_lines (rewrite_headers from to (render body))))
  = Some (Some from, Some to, body).
Proof. exact rewrite_then_parse_header. Qed.

(* before names were quoted such a name was written bare, which diffy rejects (witness: a quote) *)
Theorem C01_unquoted_name_rejected : parse_filename (bs "we""ird.txt" ++ [10]) = None.
Proof. exact unquoted_name_rejected. Qed.

(* the behaviour before the first repair did not keep the body (witness: a SQL comment line) *)
Theorem C01_rewrite_old_corrupts_body : exists from to body,
  name_ok from = true /\ name_ok to = true /\ body_ok body = true /\
  diffy_body (rewrite_headers_old from to (render body)) <> Some body.
Proof. exact rewrite_old_corrupts_body. Qed.

(* --- paths: every original path q, moved by apply to final_path rs q, is moved back to q by the
   sequence of renames undo issues: any number of renames, any nesting of renamed directories --- *)
Theorem C01_undo_steps_invert_final_path : forall rs q,
  wf_renames rs -> avoids rs q ->
  run_steps (undo_steps rs) (final_path rs q) = q.
Proof. exact undo_steps_invert_final_path. Qed.

Theorem C01_apply_then_undo_steps : forall rs q,
  wf_renames rs -> avoids rs q ->
  run_steps (stage_steps (sort_renames rs) [] ++ undo_steps rs) q = q.
Proof. exact apply_then_undo_steps. Qed.

(* --- trees: on the tree the rename stage produces, undo's directory and file stages both succeed
   and give back literally the original tree (same keys, same nodes: contents, modes, symlinks) --- *)
Theorem C01_undo_rename_stages_exact : forall rs t,
  (forall r, In r rs -> shape r) -> NoDup (map ar_path rs) ->
  (forall r1 r2, In r1 rs -> In r2 rs -> ar_new r1 = ar_new r2 -> ar_path r1 = ar_path r2) ->
  fs_ok t rs ->
  exists t2, undo_dir_stage (undo_dirs rs) (map (fun e => (final_path rs (fst e), snd e)) t) = FOk t2 /\
             undo_file_stage (undo_files rs) t2 = FOk t.
Proof. exact undo_rename_stages_exact. Qed.

(* the two halves composed: the rename stage of apply followed by the rename reversal of undo is the
   identity on the tree *)
Theorem C01_apply_then_undo_renames : forall rs t,
  (forall r, In r rs -> shape r) -> NoDup (map ar_path rs) ->
  (forall r1 r2, In r1 rs -> In r2 rs -> ar_new r1 = ar_new r2 -> ar_path r1 = ar_path r2) ->
  fs_ok t rs ->
  (forall r, In r rs -> case_only (ar_path r) (ar_new r) = true ->
     lookup t (parent (ar_path r) ++ [probe_name]) = None /\
     forall r1, In r1 rs -> ar_new r1 <> parent (ar_path r) ++ [probe_name]) ->
  exists s' perf exe t2,
    rename_stage no_fault (sort_renames rs) [] [] {| s_fs := t; s_n := 0; s_trace := [] |}
      = inl (s', perf, exe) /\
    undo_dir_stage (undo_dirs rs) (s_fs s') = FOk t2 /\
    undo_file_stage (undo_files rs) t2 = FOk t.
Proof. exact apply_then_undo_renames. Qed.

(* THE COMPOSITION undo o apply = identity, whole tree, contents included.  plan_ok: the hypothesis of C02_apply_is_spec, on the
   ORIGINAL tree and plan - nothing is assumed about the order in which nested directory renames are reversed, about name sort order,
   symlink targets or case-only renames.  restore_ok: the patch layer as an oracle (diffy's create_patch / apply; sampled on the real
   library on every run) - keyed by ORIGINAL paths, each entry holds the file's original content, every file whose content changed has
   one.  created_ok: no recorded "created directory" is an empty directory of the original tree ([] for every successful apply).
   Equality as finite maps (a permutation with distinct keys: list order is not restored, UndoSpecP.undo_list_equality_refuted) *)
Theorem C01_undo_apply_exact : forall p t restore created,
  plan_ok p t -> restore_ok p t restore -> created_ok t created ->
  let u := undo_core (ap_renames p) restore created (r_fs (apply_core no_fault p t)) in
  u_ok u = true /\ u_failed u = [] /\
  Permutation (u_fs u) t /\ NoDup (keys (u_fs u)) /\
  (forall q, lookup (u_fs u) q = lookup t q).
Proof. exact undo_apply_exact. Qed.

(* the same with the content stage of undo as undo.rs really performs it - temp file beside the target, chmod, rename - which equals
   the in-place model exactly when each patched file's temp name is free *)
Theorem C01_undo_apply_exact_tmp : forall p t restore created,
  plan_ok p t -> restore_ok p t restore -> created_ok t created ->
  (forall f r, In (f, r) restore -> exists h, In h (ap_hunks p) /\ ah_file h = f) ->
  let u := undo_core_tmp (ap_renames p) restore created (r_fs (apply_core no_fault p t)) in
  u = undo_core (ap_renames p) restore created (r_fs (apply_core no_fault p t)) /\
  u_ok u = true /\ u_failed u = [] /\ Permutation (u_fs u) t /\ NoDup (keys (u_fs u)) /\
  (forall q, lookup (u_fs u) q = lookup t q).
Proof. exact undo_apply_exact_tmp. Qed.

(* nothing remains at or below any planned destination; the source of every planned rename is back with its kind *)
Theorem C01_destinations_free_after_undo : forall p t restore created r q,
  plan_ok p t -> restore_ok p t restore -> created_ok t created ->
  In r (ap_renames p) -> path_prefix (ar_new r) q = true ->
  lookup (u_fs (undo_core (ap_renames p) restore created (r_fs (apply_core no_fault p t)))) q = None.
Proof. intros p t restore created r q W R C. exact (undo_destinations_free p t restore created W R C r q). Qed.

Print Assumptions C01_undo_apply_exact.
Print Assumptions C01_undo_apply_exact_tmp.
Print Assumptions C01_destinations_free_after_undo.
Print Assumptions C01_apply_then_undo_renames.
Print Assumptions C01_rewrite_then_parse_keeps_body.
Print Assumptions C01_header_names_roundtrip.
Print Assumptions C01_rewrite_then_parse_header.
Print Assumptions C01_unquoted_name_rejected.
Print Assumptions C01_rewrite_old_corrupts_body.
Print Assumptions C01_undo_steps_invert_final_path.
Print Assumptions C01_apply_then_undo_steps.
Print Assumptions C01_undo_rename_stages_exact.
