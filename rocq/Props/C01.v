(* Props/C01.v — placeholder; statements are added with their proofs. *)
From RN Require Import Base.Bytes.
Theorem C01_placeholder : True. Proof. exact I. Qed.
Print Assumptions C01_placeholder.
