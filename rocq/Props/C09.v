(* Props/C09.v — Out-of-scope files are never planned or modified.  Statements only.
   ign / glob / dirs are ARBITRARY oracles for gitignore matching, glob matching and ancestor listing. *)
From Coq Require Import Strings.String.
From RN Require Import Base.Bytes Base.Str Model.Fs Model.WalkerDef Gen.GenWalker Model.Walker Proofs.WalkerP.

Theorem C09_git_never_in_scope : forall ign glob dirs level inc exc p,
  has_component (bs ".git") p = true -> in_scope ign glob dirs level inc exc p = false.
Proof. exact git_never_in_scope. Qed.

Theorem C09_renamify_never_in_scope : forall ign glob dirs level inc exc p,
  has_component (bs ".renamify") p = true -> in_scope ign glob dirs level inc exc p = false.
Proof. exact renamify_never_in_scope. Qed.

Theorem C09_level_table_as_documented : forall level k, (level <= 3)%nat ->
  consulted (gen_walker level) k = documented level k.
Proof. exact level_table_as_documented. Qed.

Theorem C09_ignored_out_of_scope : forall ign glob dirs level inc exc p k d,
  consulted (gen_walker level) k = true -> In d (dirs p) -> ign (ikind_name k) d p = true ->
  in_scope ign glob dirs level inc exc p = false.
Proof. exact ignored_out_of_scope. Qed.

Theorem C09_excluded_glob_out_of_scope : forall ign glob dirs level inc exc p,
  exc <> [] -> glob exc p = true -> in_scope ign glob dirs level inc exc p = false.
Proof. exact excluded_glob_out_of_scope. Qed.

Theorem C09_not_included_out_of_scope : forall ign glob dirs level inc exc p,
  inc <> [] -> glob inc p = false -> in_scope ign glob dirs level inc exc p = false.
Proof. exact not_included_out_of_scope. Qed.

Theorem C09_binary_not_scanned_below_uuu : forall ign glob dirs level inc exc p,
  (level < 3)%nat -> content_scanned ign glob dirs level inc exc p true = false.
Proof. exact binary_not_scanned_below_uuu. Qed.

Print Assumptions C09_git_never_in_scope.
Print Assumptions C09_renamify_never_in_scope.
Print Assumptions C09_level_table_as_documented.
Print Assumptions C09_ignored_out_of_scope.
Print Assumptions C09_excluded_glob_out_of_scope.
Print Assumptions C09_not_included_out_of_scope.
Print Assumptions C09_binary_not_scanned_below_uuu.
