(* Props/C19.v — Machine-readable output is one well-formed, schema-conformant document.  Statements only.
   gen_rdefs: the Rust types that reach --output json with their serde attributes, and one synthetic struct
   "<Type>.json" per json! envelope of output.rs::format_json; gen_tdefs: renamify-core/bindings/*.d.ts;
   both regenerated on every run (Gen/GenShapes.v). *)
From Coq Require Import Strings.String.
From RN Require Import Base.Bytes Base.Str Model.SerdeAttr Model.Serde Model.Shapes Model.ShapesTie Gen.GenShapes.
From RN Require Proofs.ShapesP.

(* META-THEOREM, for all tables, types and values: a Rust type accepted by [compat] against a TypeScript type
   only ever serialises to documents that conform to it *)
Theorem C19_compat_sound : forall f rds tds r t g v j,
  compat f rds tds r t = true -> enc g rds r v = Some j -> conforms (S f) tds t j = true.
Proof. exact ShapesP.compat_sound. Qed.

(* the current sources: every serialised Plan conforms to the published binding ... *)
Theorem C19_plan_conforms : forall g v j,
  enc g gen_rdefs (RRef (bs "Plan")) v = Some j -> conforms 12 gen_tdefs (TRef (bs "Plan")) j = true.
Proof. exact ShapesP.plan_conforms. Qed.

(* ... and the documents of search / plan and of rename carry what the extension reads *)
Theorem C19_plan_document : forall g v j,
  enc g gen_rdefs (RRef (bs "PlanResult.json")) v = Some j -> conforms 12 gen_tdefs expect_plan_doc j = true.
Proof. intros g v j. apply (ShapesP.compat_sound 11). vm_compute. reflexivity. Qed.

Theorem C19_rename_document : forall g v j,
  enc g gen_rdefs (RRef (bs "RenameResult.json")) v = Some j -> conforms 12 gen_tdefs expect_rename_doc j = true.
Proof. intros g v j. apply (ShapesP.compat_sound 11). vm_compute. reflexivity. Qed.

Theorem C19_simple_documents : forall n, In n [bs "ApplyResult.json"; bs "UndoResult.json"; bs "RedoResult.json"] ->
  forall g v j, enc g gen_rdefs (RRef n) v = Some j -> conforms 12 gen_tdefs expect_simple_doc j = true.
Proof.
  intros n Hn g v j. apply (ShapesP.compat_sound 11).
  destruct Hn as [<-|[<-|[<-|[]]]]; vm_compute; reflexivity.
Qed.

(* recorded findings (known_findings.json): the history and status documents are not what the extension parses *)
Theorem C19_history_document_refuted : exists v j,
  enc 8 gen_rdefs (RRef (bs "HistoryResult.json")) v = Some j /\ conforms 16 gen_tdefs expect_history_doc j = false.
Proof. exists (VRec [VL []]). eexists. split; [vm_compute; reflexivity | vm_compute; reflexivity]. Qed.

Theorem C19_status_document_refuted : exists v j,
  enc 8 gen_rdefs (RRef (bs "StatusResult.json")) v = Some j /\ conforms 16 gen_tdefs expect_status_doc j = false.
Proof. exists (VRec [VO None; VN 1; VO (Some (VS (bs "apply")))]). eexists. split; [vm_compute; reflexivity | vm_compute; reflexivity]. Qed.

Print Assumptions C19_compat_sound.
Print Assumptions C19_plan_conforms.
Print Assumptions C19_plan_document.
Print Assumptions C19_rename_document.
Print Assumptions C19_simple_documents.
Print Assumptions C19_history_document_refuted.
Print Assumptions C19_status_document_refuted.
