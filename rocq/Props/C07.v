(* Props/C07.v — Only the term changes: match soundness and locality.  Statements only.
   find_compound_variants: Model/Compound.v, the restatement of compound_matcher.rs (tied differentially to
   the real function by lib/props/c07.py); tokens / to_style / detect_style: the C18 model with the acronym
   table of the current source (Gen/GenAcronyms.v).
   ci_window ot it: the tokens `it` contain a contiguous window equal to `ot` up to ASCII case.
   no_occ sw l: the words sw do not occur as a contiguous window of l.
   The locality theorems are stated for snake, kebab, dot, SCREAMING_SNAKE, SCREAMING-TRAIN and PascalCase
   identifiers of neutral words; the doubled-separator clause of the property is FALSE of the function
   (C07_doubled_separator_refuted, recorded finding doubled_separator_collapsed); camelCase, Train-Case and
   Title Case phrases: Proofs/CompoundP3.v (C07_locality_camel / _train / _title), which covers every style that keeps
   word boundaries visible inside one identifier.  In PascalCase the words OUTSIDE the span are preserved for every
   replacement; how the replacement is cased INSIDE the span depends on how it was typed (all-caps styles leak
   their capitals: C07_pascal_caps_inside_span) - that is not a locality failure. *)
From Coq Require Import String.
From RN Require Import Base.Bytes Base.Str Model.StyleDef Model.CaseModel Model.CaseSpec Model.Compound.
From RN Require Import Gen.GenAcronyms Gen.GenStyles.
From RN Require Import Model.Matcher Model.Enhanced.
From RN Require Import Proofs.CaseP2 Proofs.CompoundP1 Proofs.CompoundP Proofs.CompoundP2 Proofs.CompoundP3 Proofs.EnhancedP1 Proofs.EnhancedP2.

(* soundness: whatever is returned, the identifier's tokens hold the term's tokens as a whole-word window *)
Theorem C07_soundness : forall ident search repl styles,
  find_compound_variants ident search repl styles <> [] ->
  ci_window (tokens gen_acronyms search) (tokens gen_acronyms (snd (extract_prefix ident))).
Proof. exact compound_soundness. Qed.

(* soundness at the level of the scanner (compound_scanner.rs::find_enhanced_matches, Model/Enhanced.v): every compound
   match handed to generate_hunks spans exactly one identifier of the file - the slice reported by the extractor - and that
   identifier's tokens hold the term's tokens as a whole-word window *)
Theorem C07_scanner_soundness : forall styles c search replace m, compound_kind styles c search replace m ->
  exists id, (e_start m < e_end m)%nat /\ (e_end m <= length c)%nat /\
    id = firstn (e_end m - e_start m) (skipn (e_start m) c) /\
    e_variant m = id /\ ci_window (tokens gen_acronyms search) (tokens gen_acronyms (snd (extract_prefix id))).
Proof. exact enhanced_compound_has_window. Qed.

(* near miss: no whole-word window, no edit — for every replacement and every style selection *)
Theorem C07_near_miss : forall ident search repl styles,
  ~ ci_window (tokens gen_acronyms search) (tokens gen_acronyms (snd (extract_prefix ident))) ->
  find_compound_variants ident search repl styles = [].
Proof. exact compound_near_miss. Qed.

(* the property's own examples, and the same near-misses embedded in longer identifiers *)
Theorem C07_xfoo_bar : forall repl styles, find_compound_variants (bs "xfoo_bar") (bs "foo_bar") repl styles = [].
Proof. exact near_miss_xfoo_bar. Qed.
Theorem C07_foo_barn : forall repl styles, find_compound_variants (bs "foo_barn") (bs "foo_bar") repl styles = [].
Proof. exact near_miss_foo_barn. Qed.
Theorem C07_foobar : forall repl styles, find_compound_variants (bs "foobar") (bs "foo_bar") repl styles = [].
Proof. exact near_miss_foobar. Qed.
Theorem C07_near_miss_in_compound : forall repl styles,
  find_compound_variants (bs "get_xfoo_bar_now") (bs "foo_bar") repl styles = [] /\
  find_compound_variants (bs "getFooBarnNow") (bs "foo_bar") repl styles = [] /\
  find_compound_variants (bs "get-foobar-now") (bs "foo_bar") repl styles = [].
Proof. exact near_miss_in_compound. Qed.

(* locality, single-separator family: prefix (none, _ or __), the other words and the separators are
   preserved byte for byte; only the window sw is replaced, by the replacement's words *)
Theorem C07_locality_snake : forall pfx pre sw rw post S0 S1 styles,
  pfx_ok pfx ->
  all_neutral gen_acronyms pre = true -> all_neutral gen_acronyms sw = true ->
  all_neutral gen_acronyms post = true -> all_neutral gen_acronyms rw = true ->
  sw <> [] -> rw <> [] -> pre ++ post <> [] ->
  visible S0 = true -> visible S1 = true ->
  no_occ sw (pre ++ removelast sw) -> no_occ sw post ->
  existsb (style_eqb Snake) styles = true ->
  find_compound_variants (pfx ++ join [95%N] (pre ++ sw ++ post))
                         (to_style gen_acronyms sw S0) (to_style gen_acronyms rw S1) styles =
  [mk_cmatch (pfx ++ join [95%N] (pre ++ sw ++ post)) (pfx ++ join [95%N] (pre ++ rw ++ post)) Snake 0 0].
Proof. exact compound_locality_snake_words. Qed.

Theorem C07_locality_kebab : forall pfx pre sw rw post S0 S1 styles,
  pfx_ok pfx ->
  all_neutral gen_acronyms pre = true -> all_neutral gen_acronyms sw = true ->
  all_neutral gen_acronyms post = true -> all_neutral gen_acronyms rw = true ->
  sw <> [] -> rw <> [] -> pre ++ post <> [] ->
  visible S0 = true -> visible S1 = true ->
  no_occ sw (pre ++ removelast sw) -> no_occ sw post ->
  existsb (style_eqb Kebab) styles = true ->
  find_compound_variants (pfx ++ join [45%N] (pre ++ sw ++ post))
                         (to_style gen_acronyms sw S0) (to_style gen_acronyms rw S1) styles =
  [mk_cmatch (pfx ++ join [45%N] (pre ++ sw ++ post)) (pfx ++ join [45%N] (pre ++ rw ++ post)) Kebab 0 0].
Proof. exact compound_locality_kebab_words. Qed.

Theorem C07_locality_dot : forall pfx pre sw rw post S0 S1 styles,
  pfx_ok pfx ->
  all_neutral gen_acronyms pre = true -> all_neutral gen_acronyms sw = true ->
  all_neutral gen_acronyms post = true -> all_neutral gen_acronyms rw = true ->
  sw <> [] -> rw <> [] -> pre ++ post <> [] ->
  visible S0 = true -> visible S1 = true ->
  no_occ sw (pre ++ removelast sw) -> no_occ sw post ->
  existsb (style_eqb Dot) styles = true ->
  find_compound_variants (pfx ++ join [46%N] (pre ++ sw ++ post))
                         (to_style gen_acronyms sw S0) (to_style gen_acronyms rw S1) styles =
  [mk_cmatch (pfx ++ join [46%N] (pre ++ sw ++ post)) (pfx ++ join [46%N] (pre ++ rw ++ post)) Dot 0 0].
Proof. exact compound_locality_dot_words. Qed.

Theorem C07_locality_screaming_snake : forall pfx pre sw rw post S0 S1 styles,
  pfx_ok pfx ->
  all_neutral gen_acronyms pre = true -> all_neutral gen_acronyms sw = true ->
  all_neutral gen_acronyms post = true -> all_neutral gen_acronyms rw = true ->
  sw <> [] -> rw <> [] -> pre ++ post <> [] ->
  visible S0 = true -> visible S1 = true ->
  no_occ sw (pre ++ removelast sw) -> no_occ sw post ->
  existsb (style_eqb ScreamingSnake) styles = true ->
  find_compound_variants (pfx ++ join [95%N] (map upper (pre ++ sw ++ post)))
                         (to_style gen_acronyms sw S0) (to_style gen_acronyms rw S1) styles =
  [mk_cmatch (pfx ++ join [95%N] (map upper (pre ++ sw ++ post)))
             (pfx ++ join [95%N] (map upper (pre ++ rw ++ post))) ScreamingSnake 0 0].
Proof. exact compound_locality_screaming_snake_words. Qed.

Theorem C07_locality_screaming_train : forall pfx pre sw rw post S0 S1 styles,
  pfx_ok pfx ->
  all_neutral gen_acronyms pre = true -> all_neutral gen_acronyms sw = true ->
  all_neutral gen_acronyms post = true -> all_neutral gen_acronyms rw = true ->
  sw <> [] -> rw <> [] -> pre ++ post <> [] ->
  visible S0 = true -> visible S1 = true ->
  no_occ sw (pre ++ removelast sw) -> no_occ sw post ->
  existsb (style_eqb ScreamingTrain) styles = true ->
  find_compound_variants (pfx ++ join [45%N] (map upper (pre ++ sw ++ post)))
                         (to_style gen_acronyms sw S0) (to_style gen_acronyms rw S1) styles =
  [mk_cmatch (pfx ++ join [45%N] (map upper (pre ++ sw ++ post)))
             (pfx ++ join [45%N] (map upper (pre ++ rw ++ post))) ScreamingTrain 0 0].
Proof. exact compound_locality_screaming_train_words. Qed.

(* PascalCase: for EVERY visible style S1 the replacement is typed in, the words before and after the span are
   preserved; the span holds the replacement's words capitalised (upper-cased when S1 is an all-caps style) *)
Theorem C07_locality_pascal : forall pfx pre sw rw post S0 S1 styles,
  pfx_ok pfx ->
  all_neutral gen_acronyms pre = true -> all_neutral gen_acronyms sw = true ->
  all_neutral gen_acronyms post = true -> all_neutral gen_acronyms rw = true ->
  sw <> [] -> rw <> [] -> pre ++ post <> [] ->
  visible S0 = true -> visible S1 = true ->
  no_occ sw (pre ++ removelast sw) -> no_occ sw post ->
  existsb (style_eqb Pascal) styles = true ->
  find_compound_variants (pfx ++ concat (map capw (pre ++ sw ++ post)))
                         (to_style gen_acronyms sw S0) (to_style gen_acronyms rw S1) styles =
  [mk_cmatch (pfx ++ concat (map capw (pre ++ sw ++ post)))
             (pfx ++ concat (map capw pre ++ map (if all_caps S1 then upper else capw) rw ++ map capw post))
             Pascal 0 0].
Proof. exact compound_locality_pascal_words_gen. Qed.

(* Train-Case: every word outside the span, every '-' and the prefix are preserved; the replacement's words are
   capitalised whatever style it was typed in (no all-caps leak: to_style .. Train re-cases) *)
Theorem C07_locality_train : forall pfx pre sw rw post S0 S1 styles,
  pfx_ok pfx ->
  all_neutral gen_acronyms pre = true -> all_neutral gen_acronyms sw = true ->
  all_neutral gen_acronyms post = true -> all_neutral gen_acronyms rw = true ->
  sw <> [] -> rw <> [] -> pre ++ post <> [] ->
  visible S0 = true -> visible S1 = true ->
  no_occ sw (pre ++ removelast sw) -> no_occ sw post ->
  existsb (style_eqb Train) styles = true ->
  find_compound_variants (pfx ++ join [45%N] (map capw (pre ++ sw ++ post)))
                         (to_style gen_acronyms sw S0) (to_style gen_acronyms rw S1) styles =
  [mk_cmatch (pfx ++ join [45%N] (map capw (pre ++ sw ++ post)))
             (pfx ++ join [45%N] (map capw (pre ++ rw ++ post))) Train 0 0].
Proof. exact compound_locality_train_words. Qed.

(* camelCase, span anywhere (camel ws = first word as it is, the others capitalised; camel_span f pre rw post = the camelCase
   identifier pre ++ rw ++ post in which the words of rw that are not the identifier's first word are written with f): the words
   outside the span are preserved for EVERY replacement; inside the span a replacement typed in an all-caps style keeps its
   capitals (same leak as Pascal), otherwise the result is exactly camel (pre ++ rw ++ post) *)
Theorem C07_locality_camel_gen : forall pfx pre sw rw post S0 S1 styles,
  pfx_ok pfx ->
  all_neutral gen_acronyms pre = true -> all_neutral gen_acronyms sw = true ->
  all_neutral gen_acronyms post = true -> all_neutral gen_acronyms rw = true ->
  sw <> [] -> rw <> [] -> pre ++ post <> [] ->
  visible S0 = true -> visible S1 = true ->
  no_occ sw (pre ++ removelast sw) -> no_occ sw post ->
  existsb (style_eqb Camel) styles = true ->
  find_compound_variants (pfx ++ camel (pre ++ sw ++ post))
                         (to_style gen_acronyms sw S0) (to_style gen_acronyms rw S1) styles =
  [mk_cmatch (pfx ++ camel (pre ++ sw ++ post))
             (pfx ++ camel_span (if all_caps S1 then upper else capw) pre rw post) Camel 0 0].
Proof. exact compound_locality_camel_words_gen. Qed.

Theorem C07_locality_camel : forall pfx pre sw rw post S0 S1 styles,
  pfx_ok pfx ->
  all_neutral gen_acronyms pre = true -> all_neutral gen_acronyms sw = true ->
  all_neutral gen_acronyms post = true -> all_neutral gen_acronyms rw = true ->
  sw <> [] -> rw <> [] -> pre ++ post <> [] ->
  visible S0 = true -> visible S1 = true -> all_caps S1 = false ->
  no_occ sw (pre ++ removelast sw) -> no_occ sw post ->
  existsb (style_eqb Camel) styles = true ->
  find_compound_variants (pfx ++ camel (pre ++ sw ++ post))
                         (to_style gen_acronyms sw S0) (to_style gen_acronyms rw S1) styles =
  [mk_cmatch (pfx ++ camel (pre ++ sw ++ post)) (pfx ++ camel (pre ++ rw ++ post)) Camel 0 0].
Proof. exact compound_locality_camel_words. Qed.

(* Title Case phrases (one "identifier" for the extractor when Title is enabled): words outside the span and the spaces
   are preserved; a multi-word term is replaced by the capitalised words of the replacement, a ONE-word term by the
   replacement's words glued together (the one-token window is classified Pascal; observation title_single_word_glued) *)
Theorem C07_locality_title : forall pfx pre sw rw post S0 S1 styles,
  pfx_ok pfx ->
  all_neutral gen_acronyms pre = true -> all_neutral gen_acronyms sw = true ->
  all_neutral gen_acronyms post = true -> all_neutral gen_acronyms rw = true ->
  sw <> [] -> rw <> [] -> pre ++ post <> [] ->
  visible S0 = true -> visible S1 = true ->
  no_occ sw (pre ++ removelast sw) -> no_occ sw post ->
  existsb (style_eqb Title) styles = true ->
  find_compound_variants (pfx ++ join [32%N] (map capw (pre ++ sw ++ post)))
                         (to_style gen_acronyms sw S0) (to_style gen_acronyms rw S1) styles =
  [mk_cmatch (pfx ++ join [32%N] (map capw (pre ++ sw ++ post)))
             (pfx ++ join [32%N] (map capw pre ++
                                match sw with
                                | [_] => [concat (map (if all_caps S1 then upper else capw) rw)]
                                | _ => map capw rw
                                end ++ map capw post)) Title 0 0].
Proof. exact compound_locality_title_words. Qed.

Theorem C07_camel_caps_inside_span :
  find_compound_variants (bs "getUserNameNow") (bs "user_name") (bs "ACCOUNT_NUMBER") gen_all_styles =
  [mk_cmatch (bs "getUserNameNow") (bs "getACCOUNTNUMBERNow") Camel 0 0] /\
  find_compound_variants (bs "userNameNow") (bs "user_name") (bs "ACCOUNT_NUMBER") gen_all_styles =
  [mk_cmatch (bs "userNameNow") (bs "accountNUMBERNow") Camel 0 0].
Proof. exact compound_camel_caps_leak. Qed.

Theorem C07_pascal_caps_inside_span :
  find_compound_variants (bs "GetUserNameNow") (bs "user_name") (bs "ACCOUNT_NUMBER") gen_all_styles =
  [mk_cmatch (bs "GetUserNameNow") (bs "GetACCOUNTNUMBERNow") Pascal 0 0].
Proof. exact compound_pascal_caps_leak. Qed.

(* the clause "separators (including doubled ones) are preserved" does not hold: machine-checked witness,
   the same output as the Rust function (recorded finding doubled_separator_collapsed) *)
Theorem C07_doubled_separator_refuted :
  find_compound_variants (bs "my__old_name_x") (bs "old_name") (bs "new_name") gen_all_styles =
  [mk_cmatch (bs "my__old_name_x") (bs "my_new_name_x") Snake 0 0].
Proof. exact compound_doubled_separator_refuted. Qed.

(* non-vacuity: the hypotheses of the locality theorem are met by a concrete identifier *)
Example C07_locality_instance :
  find_compound_variants (bs "__get_user_name_now") (bs "userName") (bs "account-id") gen_all_styles =
  [mk_cmatch (bs "__get_user_name_now") (bs "__get_account_id_now") Snake 0 0].
Proof. vm_compute. reflexivity. Qed.

Print Assumptions C07_soundness.
Print Assumptions C07_scanner_soundness.
Print Assumptions C07_near_miss.
Print Assumptions C07_xfoo_bar.
Print Assumptions C07_foo_barn.
Print Assumptions C07_foobar.
Print Assumptions C07_near_miss_in_compound.
Print Assumptions C07_locality_snake.
Print Assumptions C07_locality_kebab.
Print Assumptions C07_locality_dot.
Print Assumptions C07_locality_screaming_snake.
Print Assumptions C07_locality_screaming_train.
Print Assumptions C07_locality_pascal.
Print Assumptions C07_pascal_caps_inside_span.
Print Assumptions C07_locality_train.
Print Assumptions C07_locality_camel_gen.
Print Assumptions C07_locality_camel.
Print Assumptions C07_locality_title.
Print Assumptions C07_camel_caps_inside_span.
Print Assumptions C07_doubled_separator_refuted.
Print Assumptions C07_locality_instance.
