(* Props/C15.v — What the preview shows is what apply does.  Statements only. *)
From RN Require Import Base.Bytes Model.Edits Model.Matcher Model.Hunks Proofs.EditsP Proofs.HunksP.
From RN Require Import Model.ApplyModel Model.SimplePlan Proofs.SimplePlanP Model.SimplePlanRx Proofs.SimplePlanRxP.

(* 'before' is the file's current line and a match's 'after' is that line with that match replaced:
   part of hunk_ok, which the planner's hunks satisfy for every content and span *)
Theorem C15_before_after_of_planner_hunks : forall wt c start stop repl,
  (start < stop)%nat -> (stop <= length c)%nat ->
  char_boundary c start = true -> char_boundary c stop = true ->
  existsb (N.eqb 10) (firstn (stop - start) (skipn start c)) = false ->
  hunk_ok wt c (mk_hunk wt c start stop repl) = true.
Proof. exact mk_hunk_ok. Qed.

(* the diff preview: the added line computed from the hunks of one line (right-to-left splicing under
   the starts_with guard) is exactly the line as it reads once ALL hunks of that line are applied *)
Theorem C15_diff_after_is_line_after_plan : forall l hs,
  line_hunks_ok l hs -> hs <> [] -> diff_after hs = line_after_plan l hs.
Proof. exact diff_after_is_line_after_plan. Qed.

(* for the hunks of one line taken from a plan that is consistent with the file (any number of matches on
   the line, replacements of any length, multi-byte text before them, CRLF lines) *)
Theorem C15_consistent_diff_after : forall wt c h0 hs,
  file_consistent wt c (h0 :: hs) = true ->
  (forall h, In h hs -> fh_line h = fh_line h0) ->
  (wt = false -> forall h, In h (h0 :: hs) -> no_cr_cut c h) ->
  diff_after (h0 :: hs) = line_after_plan (line_ctx wt c (fh_start h0)) (h0 :: hs).
Proof. exact consistent_diff_after. Qed.

(* the no_cr_cut side condition is needed: a replace-style match that ends in the '\r' of a CRLF line is
   silently dropped by the preview although apply performs it *)
Theorem C15_cr_cut_preview_understates : exists c hs,
  file_consistent false c hs = true /\ diff_after hs <> line_after_plan (line_ctx false c 0) hs.
Proof.
  exists Witness.c2, Witness.hs2. split; [exact Witness.cr_cut_consistent|].
  destruct Witness.cr_cut_preview as [A B]. rewrite A, B. discriminate.
Qed.

Print Assumptions C15_before_after_of_planner_hunks.
Print Assumptions C15_diff_after_is_line_after_plan.
Print Assumptions C15_consistent_diff_after.
Print Assumptions C15_cr_cut_preview_understates.

(* the same for the planner behind `renamify replace` (Model/SimplePlan.v), for EVERY file: for the hunks the plan has on one line -
   any contiguous segment of the file's hunk list whose hunks share a line number - the diff preview's added line is the line as it
   reads once all of them are applied.  The CR-cut exception of the case-aware planner cannot arise here (a match never ends in the
   '\r' of "\r\n": the line is searched without its terminator) *)
Theorem C15_simple_plan_preview : forall excl p repl bat c seg_pre h0 hs seg_post,
  p <> [] -> utf8_ok p = true ->
  fst (SimplePlan.process_file_content excl p repl bat c) = seg_pre ++ (h0 :: hs) ++ seg_post ->
  (forall h, In h hs -> fh_line h = fh_line h0) ->
  diff_after (h0 :: hs) = line_after_plan (line_ctx false c (fh_start h0)) (h0 :: hs).
Proof. exact simple_plan_now_preview. Qed.

Print Assumptions C15_simple_plan_preview.

(* regex mode of `replace` (Model/SimplePlanRx.v), with the merge loop of preview/diff.rs as it really is (diff_after_real: the guard is
   `after_line.get(col..).is_some_and(starts_with content)`, which an empty content passes at the end of the line): under the regex
   crate's contract, with successive matches starting at strictly increasing places, the added line is how the line reads after apply -
   for EVERY regex, also one that matches the empty string *)
Theorem C15_regex_plan_preview : forall excl rx_caps p repl bat c seg_pre h0 hs seg_post,
  rx_caps_ok rx_caps -> rx_caps_strict rx_caps ->
  map rx_fh (fst (process_file_content_regex excl rx_caps p repl bat c)) = seg_pre ++ (h0 :: hs) ++ seg_post ->
  (forall h, In h hs -> fh_line h = fh_line h0) ->
  diff_after_real (h0 :: hs) = line_after_plan (line_ctx false c (fh_start h0)) (h0 :: hs).
Proof. exact regex_plan_preview_real. Qed.

Print Assumptions C15_regex_plan_preview.
