(* Props/C14.v — Planning and previewing are read-only and deterministic.  Statements only. *)
From RN Require Import Model.ParMerge Proofs.ParMergeP.

(* whatever order the worker threads finish in (any permutation of the file indices, any pool size),
   the per-file results are read back in the order of the file list *)
Theorem C14_collect_any_schedule : forall (A : Type) (n : nat) (order : list nat) (f : nat -> A),
  Permutation order (seq 0 n) -> collect n (fill order f) = map (fun i => Some (f i)) (seq 0 n).
Proof. intros A. exact (@collect_any_schedule A). Qed.

Theorem C14_schedule_independent : forall (A : Type) (n : nat) (o1 o2 : list nat) (f : nat -> A),
  Permutation o1 (seq 0 n) -> Permutation o2 (seq 0 n) -> collect n (fill o1 f) = collect n (fill o2 f).
Proof. intros A. exact (@collect_schedule_independent A). Qed.

(* the summary counts do not depend on the order in which per-file outcomes are merged *)
Theorem C14_stats_merge_order_independent : forall os os' v,
  Permutation os os' -> merge_counts os v = merge_counts os' v.
Proof. exact merge_counts_perm. Qed.

(* the final order of the matches depends only on which matches there are *)
Theorem C14_sort_canonical : forall l l', Permutation l l' -> sort_keys l = sort_keys l'.
Proof. exact sort_keys_canonical. Qed.

Print Assumptions C14_collect_any_schedule.
Print Assumptions C14_schedule_independent.
Print Assumptions C14_stats_merge_order_independent.
Print Assumptions C14_sort_canonical.
