(* Props/C11.v — A crash at any instant leaves a consistent, usable workspace.  Statements only. *)
From RN Require Import Base.Bytes Model.Edits Model.Fs Model.ApplyModel Model.Lock Proofs.LockP Proofs.EditsP.
From RN Require Proofs.Apply2P.
From Coq Require Import List.
From RN Require Import Proofs.ApplySpecP Proofs.CrashRenameP.

(* the tree a kill before operation k leaves behind is, by definition of the model, the result of a
   prefix of the fault-free operation sequence; nothing is ever executed out of order *)
Theorem C11_crash_prefix_is_prefix : forall p t k,
  crash_prefix p t k = run_ops (firstn k (r_trace (apply_core no_fault p t))) t.
Proof. reflexivity. Qed.

(* killed before the first operation: nothing has changed *)
Theorem C11_crash_at_zero_unchanged : forall p t, crash_prefix p t 0 = t.
Proof. reflexivity. Qed.

(* the lock can no longer be left empty by a kill inside acquire: creation and content are one step *)
Theorem C11_lock_created_with_content : forall w p w',
  get_pc (procs w) p = Some PCreate -> step w p = Some w' ->
  (lock w = None /\ lock w' = Some (CValid p (now w))) \/ (lock w <> None /\ lock w' = lock w).
Proof. exact enter_needs_absent. Qed.

(* content stage: after a kill at ANY operation of a content-only apply every original name holds its old
   node or — a planned regular file — the complete output of the splice; no name ever holds a mixture.
   Hypothesis: nothing of the tree lives at or below the temp name of a planned file. *)
Theorem C11_crash_content_atomic : forall p t k q n,
  ap_renames p = [] -> r_ok (apply_core no_fault p t) = true ->
  lookup t q = Some n ->
  (forall f es, In (f, es) (edits_by_file (ap_hunks p)) -> Apply2P.free_at t (tmp_of f)) ->
  Apply2P.old_or_new (edits_by_file (ap_hunks p)) q n (crash_prefix p t k).
Proof. exact Apply2P.crash_content_atomic_gen. Qed.

Theorem C11_crash_unplanned_untouched : forall p t k q n,
  ap_renames p = [] -> r_ok (apply_core no_fault p t) = true ->
  lookup t q = Some n ->
  (forall f es, In (f, es) (edits_by_file (ap_hunks p)) -> Apply2P.free_at t (tmp_of f)) ->
  ~ In q (map fst (edits_by_file (ap_hunks p))) ->
  lookup (crash_prefix p t k) q = Some n.
Proof. exact Apply2P.crash_unplanned_untouched. Qed.

(* ---- PLANS WITH RENAMES AND CONTENT EDITS (Proofs/CrashRenameP.v), under plan_ok alone, case-only renames included ----
   loc p j q      : the original path q moved by the first j executed renames (loc p 0 q = q; after all of them: final_path)
   planned c es   : the reference splice of the file's sorted edits
   files_of p     : the planned files in the order apply edits them
   After a kill before ANY operation k there are i, j and at most one extra entry such that:
   every regular file of the original tree is present at loc p j of its path, with its mode, holding either its complete original or
   its complete planned content; every other entry (directory, symlink) is present there exactly as it was; and whatever else is in
   the tree is the one extra entry, which is the temp file of the file being rewritten (empty, or holding the complete planned
   content) or the case-sensitivity probe.  All entries have moved by the SAME j renames: a renamed directory is never split
   between its old and its new name. *)
Theorem C11_crash_files_intact : forall p t k,
  plan_ok p t ->
  let T := crash_prefix p t k in
  exists i j extra,
    (j <= length (ap_renames p))%nat /\ extra_ok p t i j extra /\
    (forall q m c, lookup t q = Some (File m c) ->
       exists c', lookup T (loc p j q) = Some (File m c') /\
                  (c' = c \/ exists es, In (q, es) (files_of p) /\ c' = planned c es)) /\
    (forall q n, lookup t q = Some n -> (forall m c, n <> File m c) -> lookup T (loc p j q) = Some n) /\
    (forall q' n', lookup T q' = Some n' -> In (q', n') extra \/ exists q, In q (keys t) /\ q' = loc p j q).
Proof. exact crash_files_intact. Qed.

(* once the content stage is over every edited file has its complete planned content, wherever the renames have taken it so far *)
Theorem C11_crash_edited_after_content : forall p t k h m c,
  plan_ok p t -> (content_len p t <= k)%nat -> In h (ap_hunks p) -> lookup t (ah_file h) = Some (File m c) ->
  exists j, (j <= length (ap_renames p))%nat /\
    lookup (crash_prefix p t k) (loc p j (ah_file h))
    = Some (File m (planned c (edits_of (ap_hunks p) (ah_file h)))).
Proof. exact crash_edited_after_content. Qed.

(* a kill after the last operation leaves the complete result, which is the plan's meaning *)
Theorem C11_crash_after_last_op : forall p t k,
  plan_ok p t -> (length (r_trace (apply_core no_fault p t)) <= k)%nat ->
  crash_prefix p t k = r_fs (apply_core no_fault p t) /\
  forall q, lookup (crash_prefix p t k) q = lookup (spec_apply p t) q.
Proof. exact crash_after_last_op. Qed.

(* non-vacuity and an independent check: for the witness plan (a directory rename containing an edited, renamed file) and for a plan
   with four nested case-only renames, EVERY crash position satisfies a boolean checker of the three clauses *)
Theorem C11_every_crash_position_witness :
  forallb (crash_checkb Witness.p0 Witness.t0) (all_positions Witness.p0 Witness.t0) = true /\
  forallb (crash_checkb CrashCaseOnly.p1 RenameP2.Example1.t1) (all_positions CrashCaseOnly.p1 RenameP2.Example1.t1) = true.
Proof. split; [exact CrashWitness.p0_every_crash_position|exact CrashCaseOnly.p1_every_crash_position]. Qed.

Print Assumptions C11_crash_files_intact.
Print Assumptions C11_crash_edited_after_content.
Print Assumptions C11_crash_after_last_op.
Print Assumptions C11_every_crash_position_witness.
Print Assumptions C11_crash_prefix_is_prefix.
Print Assumptions C11_crash_at_zero_unchanged.
Print Assumptions C11_lock_created_with_content.
Print Assumptions C11_crash_content_atomic.
Print Assumptions C11_crash_unplanned_untouched.
