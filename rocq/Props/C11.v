(* Props/C11.v — A crash at any instant leaves a consistent, usable workspace.  Statements only. *)
From RN Require Import Base.Bytes Model.Edits Model.Fs Model.ApplyModel Model.Lock Proofs.LockP Proofs.EditsP.
From RN Require Proofs.Apply2P.

(* the tree a kill before operation k leaves behind is, by definition of the model, the result of a
   prefix of the fault-free operation sequence; nothing is ever executed out of order *)
Theorem C11_crash_prefix_is_prefix : forall p t k,
  crash_prefix p t k = run_ops (firstn k (r_trace (apply_core no_fault p t))) t.
Proof. reflexivity. Qed.

(* killed before the first operation: nothing has changed *)
Theorem C11_crash_at_zero_unchanged : forall p t, crash_prefix p t 0 = t.
Proof. reflexivity. Qed.

(* the lock can no longer be left empty by a kill inside acquire: creation and content are one step *)
Theorem C11_lock_created_with_content : forall w p w',
  get_pc (procs w) p = Some PCreate -> step w p = Some w' ->
  (lock w = None /\ lock w' = Some (CValid p (now w))) \/ (lock w <> None /\ lock w' = lock w).
Proof. exact enter_needs_absent. Qed.

(* content stage: after a kill at ANY operation of a content-only apply every original name holds its old
   node or — a planned regular file — the complete output of the splice; no name ever holds a mixture.
   Hypothesis: nothing of the tree lives at or below the temp name of a planned file. *)
Theorem C11_crash_content_atomic : forall p t k q n,
  ap_renames p = [] -> r_ok (apply_core no_fault p t) = true ->
  lookup t q = Some n ->
  (forall f es, In (f, es) (edits_by_file (ap_hunks p)) -> Apply2P.free_at t (tmp_of f)) ->
  Apply2P.old_or_new (edits_by_file (ap_hunks p)) q n (crash_prefix p t k).
Proof. exact Apply2P.crash_content_atomic_gen. Qed.

Theorem C11_crash_unplanned_untouched : forall p t k q n,
  ap_renames p = [] -> r_ok (apply_core no_fault p t) = true ->
  lookup t q = Some n ->
  (forall f es, In (f, es) (edits_by_file (ap_hunks p)) -> Apply2P.free_at t (tmp_of f)) ->
  ~ In q (map fst (edits_by_file (ap_hunks p))) ->
  lookup (crash_prefix p t k) q = Some n.
Proof. exact Apply2P.crash_unplanned_untouched. Qed.

Print Assumptions C11_crash_prefix_is_prefix.
Print Assumptions C11_crash_at_zero_unchanged.
Print Assumptions C11_lock_created_with_content.
Print Assumptions C11_crash_content_atomic.
Print Assumptions C11_crash_unplanned_untouched.
