(* Props/C11.v — A crash at any instant leaves a consistent, usable workspace.  Statements only. *)
From RN Require Import Base.Bytes Model.Edits Model.Fs Model.ApplyModel Model.Lock Proofs.LockP.

(* the tree a kill before operation k leaves behind is, by definition of the model, the result of a
   prefix of the fault-free operation sequence; nothing is ever executed out of order *)
Theorem C11_crash_prefix_is_prefix : forall p t k,
  crash_prefix p t k = run_ops (firstn k (r_trace (apply_core no_fault p t))) t.
Proof. reflexivity. Qed.

(* killed before the first operation: nothing has changed *)
Theorem C11_crash_at_zero_unchanged : forall p t, crash_prefix p t 0 = t.
Proof. reflexivity. Qed.

(* the lock can no longer be left empty by a kill inside acquire: creation and content are one step *)
Theorem C11_lock_created_with_content : forall w p w',
  get_pc (procs w) p = Some PCreate -> step w p = Some w' ->
  (lock w = None /\ lock w' = Some (CValid p (now w))) \/ (lock w <> None /\ lock w' = lock w).
Proof. exact enter_needs_absent. Qed.

Print Assumptions C11_crash_prefix_is_prefix.
Print Assumptions C11_crash_at_zero_unchanged.
Print Assumptions C11_lock_created_with_content.
