(* Props/C08.v — Path renames are complete, conflict-free and composable.  Statements only.
   namefn is ANY function computing the new name of an entry (variant table, resolver, coercion). *)
From RN Require Import Base.Bytes Model.StyleDef Model.CaseModel Model.CaseSpec Model.Fs Model.ApplyModel Model.Renames Model.Compound Model.Coercion Model.PathName.
From RN Require Import Proofs.RenameP Proofs.RenameP2 Proofs.RenamesP Proofs.StandaloneP Proofs.CoercionP Proofs.PathNameP.
From RN Require Proofs.Apply2P Proofs.ApplySpecP Proofs.PlanApplyP.   (* qualified: ApplySpecP.keys would shadow the variant table's keys *)
Close Scope N_scope.

(* every scheduled rename belongs to a listed entry of an enabled kind, changes exactly that entry's own
   name component, to a different name *)
Theorem C08_plan_listing_shape : forall namefn rf rd l r,
  In r (plan_listing namefn rf rd l) ->
  RenameP.shape r /\ ar_new r <> ar_path r /\
  exists e, In e l /\ ar_path r = en_path e /\ ar_dir r = en_dir e /\ (if en_dir e then rd else rf) = true.
Proof. exact plan_listing_shape. Qed.

(* each entry is scheduled at most once *)
Theorem C08_each_entry_once : forall namefn rf rd l,
  NoDup (map en_path l) -> NoDup (map ar_path (plan_listing namefn rf rd l)).
Proof. exact plan_listing_sources_nodup. Qed.

(* over several (nested, repeated) roots each source is still scheduled once *)
Theorem C08_roots_deduplicated : forall rs, NoDup (map ar_path (dedupe_paths [] rs)).
Proof. exact dedupe_paths_nodup. Qed.

(* --no-rename-files / --no-rename-dirs *)
Theorem C08_no_rename_files : forall namefn rd l r, In r (plan_listing namefn false rd l) -> ar_dir r = true.
Proof. exact no_rename_files_no_file_renames. Qed.
Theorem C08_no_rename_dirs : forall namefn rf l r, In r (plan_listing namefn rf false l) -> ar_dir r = false.
Proof. exact no_rename_dirs_no_dir_renames. Qed.

(* after conflict filtering no two renames share a destination *)
Theorem C08_distinct_targets : forall rs r1 r2,
  NoDup rs -> In r1 (without_conflicts rs) -> In r2 (without_conflicts rs) -> ar_new r1 = ar_new r2 -> r1 = r2.
Proof. exact without_conflicts_distinct_targets. Qed.

(* nested renames compose: after apply every entry sits at the path obtained by applying its ancestors'
   renames and its own, and nothing else has moved (the rename-stage theorem) *)
Theorem C08_compose : forall rs t,
  (forall r, In r rs -> RenameP.shape r) ->
  NoDup (map ar_path rs) ->
  (forall r1 r2, In r1 rs -> In r2 rs -> ar_new r1 = ar_new r2 -> ar_path r1 = ar_path r2) ->
  fs_ok t rs ->
  (forall r, In r rs -> case_only (ar_path r) (ar_new r) = false) ->
  exists s' perf exe,
    rename_stage no_fault (sort_renames rs) [] [] {| s_fs := t; s_n := 0; s_trace := [] |}
    = inl (s', perf, exe)
    /\ forall q n, lookup t q = Some n -> lookup (s_fs s') (final_path rs q) = Some n.
Proof. exact rename_stage_fs_no_case_only. Qed.

(* --- the new-name function itself (Model/PathName.v = rename.rs::determine_filename_replacement + the new-name part of
   plan_renames: first key of the variant table, in byte order, that occurs in the name; every occurrence of that key
   replaced; then, in Auto mode, coercion::apply_coercion (Model/Coercion.v, the whole of coercion.rs) may override the name).
   Both models are tied differentially to the real planner / the real apply_coercion.  resolve_name (the ambiguity resolver)
   is the only oracle left and none of these theorems consults it. --------------------------------------------------- *)

(* with separator coercion off: a name that carries the term in an enabled visible style between text that holds no variant
   (left_ok / right_ok: empty, or cut off from the occurrence by a byte no variant contains, and free of variants itself -
   letters allowed, e.g. an extension or other words) gets the term rewritten in the same style and nothing else changed *)
Theorem C08_new_name_same_style : forall acr defaults amb S0 S1 S sw rw styles,
  wf_acr acr = true -> visible S0 = true -> visible S1 = true -> visible S = true ->
  (2 <= length sw)%nat -> rw <> [] -> all_neutral acr sw = true -> all_neutral acr rw = true -> In S styles ->
  forall (resolve_name : bytes -> bytes -> style) (repl pre post : bytes),
  let vm := variant_map_core acr defaults [] [] false amb (to_style acr sw S0) (to_style acr rw S1) (Some styles) in
  left_ok vm pre -> right_ok vm post ->
  path_new_name_full acr resolve_name false vm repl (pre ++ to_style acr sw S ++ post)
  = Some (pre ++ to_style acr rw S ++ post, false).
Proof. exact path_name_off_barrier. Qed.

(* with coercion on (the default): the bare name, also behind a _ / __ prefix, keeps the style ... *)
Theorem C08_new_name_same_style_auto_bare : forall acr defaults amb S0 S1 S sw rw styles,
  wf_acr acr = true -> visible S0 = true -> visible S1 = true -> visible S = true ->
  (2 <= length sw)%nat -> rw <> [] -> all_neutral acr sw = true -> all_neutral acr rw = true -> In S styles ->
  forall (resolve_name : bytes -> bytes -> style) (repl : bytes) (pre : list N),
  pre = [] \/ pre = [95%N] \/ pre = [95%N; 95%N] ->
  path_new_name_full acr resolve_name true
    (variant_map_core acr defaults [] [] false amb (to_style acr sw S0) (to_style acr rw S1) (Some styles)) repl
    (pre ++ to_style acr sw S) = Some (pre ++ to_style acr rw S, false).
Proof. exact path_name_auto_bare. Qed.

(* ... and for a name with letter-free surroundings the result is EITHER the same-style name OR the replacement re-rendered
   in the style apply_coercion detected for the whole name, flagged coercion_applied: the only way Auto leaves the style
   (oldName_2 -> new_name_2 is the documented separator coercion; witnesses in Proofs/PathNameP.v) *)
Theorem C08_new_name_auto_shape : forall acr defaults amb S0 S1 S sw rw styles,
  wf_acr acr = true -> visible S0 = true -> visible S1 = true -> visible S = true ->
  (2 <= length sw)%nat -> rw <> [] -> all_neutral acr sw = true -> all_neutral acr rw = true -> In S styles ->
  forall (resolve_name : bytes -> bytes -> style) (repl pre post : bytes),
  noalpha pre = true -> noalpha post = true ->
  let vm := variant_map_core acr defaults [] [] false amb (to_style acr sw S0) (to_style acr rw S1) (Some styles) in
  let name := pre ++ to_style acr sw S ++ post in
  (co_apply_coercion acr name (to_style acr sw S) (to_style acr rw S) = None /\
   path_new_name_full acr resolve_name true vm repl name = Some (pre ++ to_style acr rw S ++ post, false)) \/
  (exists r partial T,
     co_apply_coercion acr name (to_style acr sw S) (to_style acr rw S) = Some (r, partial, T) /\
     mixed_or_dot T = false /\ r = pre ++ co_render (co_tokenize (to_style acr rw S)) T ++ post /\
     path_new_name_full acr resolve_name true vm repl name = Some (r, true)).
Proof. exact path_name_auto_shape. Qed.

(* completeness: such an entry IS scheduled (coercion off), with exactly that new path; a name without any variant is not *)
Theorem C08_scheduled_same_style : forall acr defaults amb S0 S1 S sw rw styles,
  wf_acr acr = true -> visible S0 = true -> visible S1 = true -> visible S = true ->
  (2 <= length sw)%nat -> rw <> [] -> all_neutral acr sw = true -> all_neutral acr rw = true -> In S styles ->
  to_style acr rw S <> to_style acr sw S ->
  forall (resolve_name : bytes -> bytes -> style) (repl : bytes) rf rd l e parent pre post,
  In e l -> en_path e = parent ++ [pre ++ to_style acr sw S ++ post] -> (if en_dir e then rd else rf) = true ->
  noalpha pre = true -> noalpha post = true ->
  In {| ar_path := en_path e; ar_new := parent ++ [pre ++ to_style acr rw S ++ post]; ar_dir := en_dir e |}
     (plan_listing (path_new_name acr resolve_name false
        (variant_map_core acr defaults [] [] false amb (to_style acr sw S0) (to_style acr rw S1) (Some styles)) repl) rf rd l).
Proof. exact path_rename_scheduled_off. Qed.

Theorem C08_no_variant_no_rename : forall acr resolve_name coerce_auto vm repl name,
  (forall k, In k (keys vm) -> Renames.contains k name = false) -> path_new_name acr resolve_name coerce_auto vm repl name = None.
Proof. exact no_key_no_rename. Qed.

Print Assumptions C08_new_name_same_style.
Print Assumptions C08_new_name_same_style_auto_bare.
Print Assumptions C08_new_name_auto_shape.
Print Assumptions C08_scheduled_same_style.
Print Assumptions C08_no_variant_no_rename.
Print Assumptions C08_plan_listing_shape.
Print Assumptions C08_each_entry_once.
Print Assumptions C08_roots_deduplicated.
Print Assumptions C08_no_rename_files.
Print Assumptions C08_no_rename_dirs.
Print Assumptions C08_distinct_targets.
Print Assumptions C08_compose.

(* ---- PLANNER AND APPLY COMPOSED (Proofs/PlanApplyP.v).  PlanApplyP.listing_of t l: l is what a directory walk of t yields (every key but the
   root once, with its kind; parents are directories) - walk_listing_of shows every finite-map directory tree has one.  For ANY new-name
   function, any --no-rename-files / --no-rename-dirs setting: the renames the planner produces from the listing satisfy every hypothesis
   of C08_compose PROVIDED no planned destination exists in the tree.  That proviso is necessary and is not the planner's business: a chain
   a -> b, b -> c passes the conflict filter (distinct destinations); apply refuses it up front with the tree untouched - model
   (PlanApplyP.Chain) and real code agree. ---- *)
Theorem C08_planner_apply_compose : forall namefn rf rd t l,
  PlanApplyP.listing_of t l ->
  let rs := without_conflicts (plan_listing namefn rf rd l) in
  (forall r, In r rs -> lookup t (ar_new r) = None) ->
  (forall r, In r rs -> case_only (ar_path r) (ar_new r) = true ->
     lookup t (parent (ar_path r) ++ [probe_name]) = None /\
     forall r1, In r1 rs -> ar_new r1 <> parent (ar_path r) ++ [probe_name]) ->
  (forall r, In r rs -> RenameP.shape r) /\
  NoDup (map ar_path rs) /\
  (forall r1 r2, In r1 rs -> In r2 rs -> ar_new r1 = ar_new r2 -> ar_path r1 = ar_path r2) /\
  fs_ok t rs /\
  dedupe_paths [] rs = rs /\
  ApplySpecP.plan_ok {| ap_id := []; ap_hunks := []; ap_renames := rs |} t /\
  exists s',
    rename_stage no_fault (sort_renames rs) [] [] {| s_fs := t; s_n := 0; s_trace := [] |}
    = inl (s', stage_perf (sort_renames rs) [], stage_steps (sort_renames rs) [])
    /\ s_fs s' = map (fun e => (final_path rs (fst e), snd e)) t
    /\ (forall q n, lookup t q = Some n -> lookup (s_fs s') (final_path rs q) = Some n)
    /\ (forall q, lookup t q = None -> avoids rs q -> lookup (s_fs s') (final_path rs q) = None).
Proof. exact PlanApplyP.planner_apply_compose. Qed.

(* completeness: an entry of an enabled kind for which the new-name function answers a different name, and whose destination is not a
   conflict target, IS scheduled, and after the stage its node sits below its parent's final path under the new name *)
Theorem C08_planner_complete : forall namefn rf rd t l,
  PlanApplyP.listing_of t l ->
  let pl := plan_listing namefn rf rd l in
  let rs := without_conflicts pl in
  (forall r, In r rs -> lookup t (ar_new r) = None) ->
  (forall r, In r rs -> case_only (ar_path r) (ar_new r) = true ->
     lookup t (parent (ar_path r) ++ [probe_name]) = None /\
     forall r1, In r1 rs -> ar_new r1 <> parent (ar_path r) ++ [probe_name]) ->
  forall e par c n,
    In e l -> en_path e = par ++ [c] -> namefn c = Some n -> n <> c ->
    (if en_dir e then rd else rf) = true ->
    ~ In (par ++ [n]) (conflict_targets pl) ->
    In {| ar_path := par ++ [c]; ar_new := par ++ [n]; ar_dir := en_dir e |} rs /\
    final_path rs (par ++ [c]) = final_path rs par ++ [n] /\
    forall s' perf exe,
      rename_stage no_fault (sort_renames rs) [] [] {| s_fs := t; s_n := 0; s_trace := [] |} = inl (s', perf, exe) ->
      exists nd, lookup t (par ++ [c]) = Some nd /\ dirnode nd = en_dir e /\
                 lookup (s_fs s') (final_path rs par ++ [n]) = Some nd.
Proof. exact PlanApplyP.planner_complete. Qed.

(* exactness: an entry for which the new-name function has no (other) name keeps its own name component *)
Theorem C08_planner_exact : forall namefn rf rd l q c,
  namefn c = None \/ namefn c = Some c ->
  let rs := without_conflicts (plan_listing namefn rf rd l) in
  final_path rs (q ++ [c]) = final_path rs q ++ [c].
Proof. exact PlanApplyP.planner_exact. Qed.

Theorem C08_every_tree_has_a_listing : forall t, NoDup (map fst t) -> Apply2P.closed_dir t -> PlanApplyP.listing_of t (PlanApplyP.walk t).
Proof. exact PlanApplyP.walk_listing_of. Qed.

Print Assumptions C08_planner_apply_compose.
Print Assumptions C08_planner_complete.
Print Assumptions C08_planner_exact.
Print Assumptions C08_every_tree_has_a_listing.
