(* Props/C08.v — Path renames are complete, conflict-free and composable.  Statements only.
   namefn is ANY function computing the new name of an entry (variant table, resolver, coercion). *)
From RN Require Import Base.Bytes Model.Fs Model.ApplyModel Model.Renames Proofs.RenameP Proofs.RenameP2 Proofs.RenamesP.

(* every scheduled rename belongs to a listed entry of an enabled kind, changes exactly that entry's own
   name component, to a different name *)
Theorem C08_plan_listing_shape : forall namefn rf rd l r,
  In r (plan_listing namefn rf rd l) ->
  shape r /\ ar_new r <> ar_path r /\
  exists e, In e l /\ ar_path r = en_path e /\ ar_dir r = en_dir e /\ (if en_dir e then rd else rf) = true.
Proof. exact plan_listing_shape. Qed.

(* each entry is scheduled at most once *)
Theorem C08_each_entry_once : forall namefn rf rd l,
  NoDup (map en_path l) -> NoDup (map ar_path (plan_listing namefn rf rd l)).
Proof. exact plan_listing_sources_nodup. Qed.

(* over several (nested, repeated) roots each source is still scheduled once *)
Theorem C08_roots_deduplicated : forall rs, NoDup (map ar_path (dedupe_paths [] rs)).
Proof. exact dedupe_paths_nodup. Qed.

(* --no-rename-files / --no-rename-dirs *)
Theorem C08_no_rename_files : forall namefn rd l r, In r (plan_listing namefn false rd l) -> ar_dir r = true.
Proof. exact no_rename_files_no_file_renames. Qed.
Theorem C08_no_rename_dirs : forall namefn rf l r, In r (plan_listing namefn rf false l) -> ar_dir r = false.
Proof. exact no_rename_dirs_no_dir_renames. Qed.

(* after conflict filtering no two renames share a destination *)
Theorem C08_distinct_targets : forall rs r1 r2,
  NoDup rs -> In r1 (without_conflicts rs) -> In r2 (without_conflicts rs) -> ar_new r1 = ar_new r2 -> r1 = r2.
Proof. exact without_conflicts_distinct_targets. Qed.

(* nested renames compose: after apply every entry sits at the path obtained by applying its ancestors'
   renames and its own, and nothing else has moved (the rename-stage theorem) *)
Theorem C08_compose : forall rs t,
  (forall r, In r rs -> shape r) ->
  NoDup (map ar_path rs) ->
  (forall r1 r2, In r1 rs -> In r2 rs -> ar_new r1 = ar_new r2 -> ar_path r1 = ar_path r2) ->
  fs_ok t rs ->
  (forall r, In r rs -> case_only (ar_path r) (ar_new r) = false) ->
  exists s' perf exe,
    rename_stage no_fault (sort_renames rs) [] [] {| s_fs := t; s_n := 0; s_trace := [] |}
    = inl (s', perf, exe)
    /\ forall q n, lookup t q = Some n -> lookup (s_fs s') (final_path rs q) = Some n.
Proof. exact rename_stage_fs_no_case_only. Qed.

Print Assumptions C08_plan_listing_shape.
Print Assumptions C08_each_entry_once.
Print Assumptions C08_roots_deduplicated.
Print Assumptions C08_no_rename_files.
Print Assumptions C08_no_rename_dirs.
Print Assumptions C08_distinct_targets.
Print Assumptions C08_compose.
