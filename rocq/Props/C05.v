(* Props/C05.v — Renaming never overwrites or loses existing files.  Statements only. *)
From RN Require Import Base.Bytes Model.Edits Model.Fs Model.ApplyModel Proofs.ApplyP Proofs.RenameP Proofs.RenameP2.
From RN Require Import Proofs.ApplySpecP.

(* whatever the plan, the tree and the fault position: if any planned destination is occupied
   (by a file, a directory - empty or not - or a symlink), apply reports failure, performs no
   file-system operation at all, and the tree (occupant included) is exactly as before *)
Theorem C05_occupied_destination_refused : forall inj p t r,
  In r (ap_renames p) -> occupied t r = true ->
  r_ok (apply_core inj p t) = false /\ r_fs (apply_core inj p t) = t /\ r_trace (apply_core inj p t) = [].
Proof. exact occupied_destination_refused. Qed.

Theorem C05_success_means_destinations_free : forall inj p t,
  r_ok (apply_core inj p t) = true -> forall r, In r (ap_renames p) -> occupied t r = false.
Proof. exact success_means_destinations_free. Qed.

(* a rename onto a free destination keeps every node of the tree *)
Theorem C05_rename_free_keeps_nodes : forall src dst t t',
  lookup t dst = None -> rename_fs src dst t = FOk t' -> map snd t' = map snd t.
Proof. exact rename_free_keeps_nodes. Qed.

(* no loss: with free destinations every node present before the rename stage is present
   afterwards, at its planned final path (chains, nesting and any number of renames included) *)
Theorem C05_no_loss : forall rs t,
  (forall r, In r rs -> shape r) ->
  NoDup (map ar_path rs) ->
  (forall r1 r2, In r1 rs -> In r2 rs -> ar_new r1 = ar_new r2 -> ar_path r1 = ar_path r2) ->
  fs_ok t rs ->
  (forall r, In r rs -> case_only (ar_path r) (ar_new r) = false) ->
  exists s' perf exe,
    rename_stage no_fault (sort_renames rs) [] [] {| s_fs := t; s_n := 0; s_trace := [] |}
    = inl (s', perf, exe)
    /\ forall q n, lookup t q = Some n -> lookup (s_fs s') (final_path rs q) = Some n.
Proof. exact rename_stage_fs_no_case_only. Qed.

(* the whole plan, content edits included (Proofs/ApplySpecP.v): after a successful apply of a plan satisfying plan_ok EVERY entry
   that was present before is still present - at its final path, a regular file with planned edits holding the reference splice
   of its own content and its mode, every other entry exactly as it was - and the number of entries is unchanged *)
Theorem C05_every_entry_still_present : forall p t q n,
  plan_ok p t -> lookup t q = Some n ->
  lookup (r_fs (apply_core no_fault p t)) (final_path (ap_renames p) q) = Some (spec_content (ap_hunks p) q n) /\
  length (r_fs (apply_core no_fault p t)) = length t.
Proof.
  intros p t q n W L. split; [|apply apply_node_count; exact W].
  rewrite (apply_lookup p t q W); [rewrite L; reflexivity|].
  apply (key_avoids _ t (po_shape _ _ W) (po_fs _ _ W)). eapply lookup_some_in. exact L.
Qed.

Print Assumptions C05_every_entry_still_present.
Print Assumptions C05_no_loss.
Print Assumptions C05_occupied_destination_refused.
Print Assumptions C05_success_means_destinations_free.
Print Assumptions C05_rename_free_keeps_nodes.
