(* Props/C05.v — Renaming never overwrites or loses existing files.  Statements only. *)
From RN Require Import Base.Bytes Model.Edits Model.Fs Model.ApplyModel Proofs.ApplyP Proofs.RenameP Proofs.RenameP2.

(* whatever the plan, the tree and the fault position: if any planned destination is occupied
   (by a file, a directory - empty or not - or a symlink), apply reports failure, performs no
   file-system operation at all, and the tree (occupant included) is exactly as before *)
Theorem C05_occupied_destination_refused : forall inj p t r,
  In r (ap_renames p) -> occupied t r = true ->
  r_ok (apply_core inj p t) = false /\ r_fs (apply_core inj p t) = t /\ r_trace (apply_core inj p t) = [].
Proof. exact occupied_destination_refused. Qed.

Theorem C05_success_means_destinations_free : forall inj p t,
  r_ok (apply_core inj p t) = true -> forall r, In r (ap_renames p) -> occupied t r = false.
Proof. exact success_means_destinations_free. Qed.

(* a rename onto a free destination keeps every node of the tree *)
Theorem C05_rename_free_keeps_nodes : forall src dst t t',
  lookup t dst = None -> rename_fs src dst t = FOk t' -> map snd t' = map snd t.
Proof. exact rename_free_keeps_nodes. Qed.

(* no loss: with free destinations every node present before the rename stage is present
   afterwards, at its planned final path (chains, nesting and any number of renames included) *)
Theorem C05_no_loss : forall rs t,
  (forall r, In r rs -> shape r) ->
  NoDup (map ar_path rs) ->
  (forall r1 r2, In r1 rs -> In r2 rs -> ar_new r1 = ar_new r2 -> ar_path r1 = ar_path r2) ->
  fs_ok t rs ->
  (forall r, In r rs -> case_only (ar_path r) (ar_new r) = false) ->
  exists s' perf exe,
    rename_stage no_fault (sort_renames rs) [] [] {| s_fs := t; s_n := 0; s_trace := [] |}
    = inl (s', perf, exe)
    /\ forall q n, lookup t q = Some n -> lookup (s_fs s') (final_path rs q) = Some n.
Proof. exact rename_stage_fs_no_case_only. Qed.

Print Assumptions C05_no_loss.
Print Assumptions C05_occupied_destination_refused.
Print Assumptions C05_success_means_destinations_free.
Print Assumptions C05_rename_free_keeps_nodes.
