(* Props/C13.v — Interrupts never leave a half-applied rename.  Statements only. *)
From RN Require Import Base.Bytes Model.Fs Model.Signal Proofs.SignalP.

(* for every command without a prompt (rename -y, apply, undo, redo, replace -y), every operation list,
   every tree and every pattern of SIGINT/SIGTERM deliveries (any positions, any multiplicity): the
   operations performed, the resulting tree and the lock state are exactly those of the undisturbed run.
   With C02/C04 this is: the complete operation, or whatever the command's own failure leaves. *)
Theorem C13_signals_transparent : forall prog sigs t,
  promptless prog ->
  let a := run_prog prog 0 sigs (s0 t) in
  let b := run_prog prog 0 no_sigs (s0 t) in
  g_fs a = g_fs b /\ g_done a = g_done b /\ g_lock a = g_lock b /\ g_exit a = g_exit b.
Proof. exact signals_transparent. Qed.

Theorem C13_no_exit_outside_prompt : forall prog sigs t,
  promptless prog -> g_exit (run_prog prog 0 sigs (s0 t)) = None.
Proof. exact no_exit_outside_prompt. Qed.

(* SIGINT during the confirmation prompt: exit 130, tree untouched, lock released *)
Theorem C13_sigint_at_prompt_changes_nothing : forall ops answer t,
  let s := run_prog (prompted ops answer) 0 (fun i => if Nat.eqb i 2 then [SigInt] else []) (s0 t) in
  g_fs s = t /\ g_done s = [] /\ g_lock s = false /\ g_exit s = Some 130%nat.
Proof. exact sigint_at_prompt_changes_nothing. Qed.

Theorem C13_exit_status_no_signal : forall prog t own,
  promptless prog -> final_exit (run_prog prog 0 no_sigs (s0 t)) own = own.
Proof. exact exit_status_no_signal. Qed.

Print Assumptions C13_signals_transparent.
Print Assumptions C13_no_exit_outside_prompt.
Print Assumptions C13_sigint_at_prompt_changes_nothing.
Print Assumptions C13_exit_status_no_signal.
