(* Props/C02.v — Apply does exactly what the plan says and nothing else.  Statements only. *)
From RN Require Import Base.Bytes Model.Edits Model.Fs Model.ApplyModel Proofs.EditsP Proofs.RenameP Proofs.RenameP2.

(* the reverse-order loop of apply.rs equals the left-to-right reference splice on every
   well-formed edit list: any number of edits per file and per line, replacements shorter or
   longer than the match, multi-byte text *)
Theorem C02_splice_is_spec : forall orig es,
  head_ok orig = true -> wf_edits orig es = true ->
  apply_edits_rev orig es = Ok (spec_splice orig es).
Proof. exact apply_edits_rev_spec. Qed.

(* a plan whose recorded text differs anywhere from the file is never applied to that file *)
Theorem C02_stale_rejected : forall orig es,
  existsb (fun e => negb (edit_matches orig e)) es = true ->
  forall r, apply_edits_rev orig es <> Ok r.
Proof. exact apply_edits_rev_mismatch. Qed.

(* the rename stage (sort, re-basing on earlier renames, bookkeeping) moves EVERY path to the
   location obtained by applying its ancestors' renames and its own: any number of renames, any
   nesting depth; p is any path not at or below a planned destination *)
Theorem C02_rename_stage_reaches_final_path : forall rs p,
  wf_renames rs -> avoids rs p ->
  run_steps (stage_steps (sort_renames rs) []) p = final_path rs p.
Proof. exact rename_stage_reaches_final_path. Qed.

(* on the file-system model: for a tree in which every rename source exists with the right kind,
   parents are directories and every destination is free, no rename fails, the resulting tree is
   exactly the original with every key sent to its final path; no node is lost, none appears *)
Theorem C02_rename_stage_fs : forall rs t,
  (forall r, In r rs -> shape r) ->
  NoDup (map ar_path rs) ->
  (forall r1 r2, In r1 rs -> In r2 rs -> ar_new r1 = ar_new r2 -> ar_path r1 = ar_path r2) ->
  fs_ok t rs ->
  (forall r, In r rs -> case_only (ar_path r) (ar_new r) = true ->
     lookup t (parent (ar_path r) ++ [probe_name]) = None /\
     forall r1, In r1 rs -> ar_new r1 <> parent (ar_path r) ++ [probe_name]) ->
  exists s',
    rename_stage no_fault (sort_renames rs) [] [] {| s_fs := t; s_n := 0; s_trace := [] |}
    = inl (s', stage_perf (sort_renames rs) [], stage_steps (sort_renames rs) [])
    /\ s_fs s' = map (fun e => (final_path rs (fst e), snd e)) t
    /\ (forall q n, lookup t q = Some n -> lookup (s_fs s') (final_path rs q) = Some n)
    /\ (forall q, lookup t q = None -> avoids rs q -> lookup (s_fs s') (final_path rs q) = None).
Proof. exact rename_stage_fs. Qed.

Print Assumptions C02_splice_is_spec.
Print Assumptions C02_rename_stage_reaches_final_path.
Print Assumptions C02_rename_stage_fs.
Print Assumptions C02_stale_rejected.
