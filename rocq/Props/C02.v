(* Props/C02.v — Apply does exactly what the plan says and nothing else.  Statements only. *)
From RN Require Import Base.Bytes Model.Edits Proofs.EditsP.

(* the reverse-order loop of apply.rs equals the left-to-right reference splice on every
   well-formed edit list: any number of edits per file and per line, replacements shorter or
   longer than the match, multi-byte text *)
Theorem C02_splice_is_spec : forall orig es,
  head_ok orig = true -> wf_edits orig es = true ->
  apply_edits_rev orig es = Ok (spec_splice orig es).
Proof. exact apply_edits_rev_spec. Qed.

(* a plan whose recorded text differs anywhere from the file is never applied to that file *)
Theorem C02_stale_rejected : forall orig es,
  existsb (fun e => negb (edit_matches orig e)) es = true ->
  forall r, apply_edits_rev orig es <> Ok r.
Proof. exact apply_edits_rev_mismatch. Qed.

Print Assumptions C02_splice_is_spec.
Print Assumptions C02_stale_rejected.
