(* Props/C02.v — Apply does exactly what the plan says and nothing else.  Statements only. *)
From Coq Require Import List Permutation.
From RN Require Import Base.Bytes Model.Edits Model.Fs Model.ApplyModel Proofs.EditsP Proofs.RenameP Proofs.RenameP2.
From RN Require Import Proofs.ApplySpecP.

(* the reverse-order loop of apply.rs equals the left-to-right reference splice on every
   well-formed edit list: any number of edits per file and per line, replacements shorter or
   longer than the match, multi-byte text *)
Theorem C02_splice_is_spec : forall orig es,
  head_ok orig = true -> wf_edits orig es = true ->
  apply_edits_rev orig es = Ok (spec_splice orig es).
Proof. exact apply_edits_rev_spec. Qed.

(* a plan whose recorded text differs anywhere from the file is never applied to that file *)
Theorem C02_stale_rejected : forall orig es,
  existsb (fun e => negb (edit_matches orig e)) es = true ->
  forall r, apply_edits_rev orig es <> Ok r.
Proof. exact apply_edits_rev_mismatch. Qed.

(* the rename stage (sort, re-basing on earlier renames, bookkeeping) moves EVERY path to the
   location obtained by applying its ancestors' renames and its own: any number of renames, any
   nesting depth; p is any path not at or below a planned destination *)
Theorem C02_rename_stage_reaches_final_path : forall rs p,
  wf_renames rs -> avoids rs p ->
  run_steps (stage_steps (sort_renames rs) []) p = final_path rs p.
Proof. exact rename_stage_reaches_final_path. Qed.

(* on the file-system model: for a tree in which every rename source exists with the right kind,
   parents are directories and every destination is free, no rename fails, the resulting tree is
   exactly the original with every key sent to its final path; no node is lost, none appears *)
Theorem C02_rename_stage_fs : forall rs t,
  (forall r, In r rs -> shape r) ->
  NoDup (map ar_path rs) ->
  (forall r1 r2, In r1 rs -> In r2 rs -> ar_new r1 = ar_new r2 -> ar_path r1 = ar_path r2) ->
  fs_ok t rs ->
  (forall r, In r rs -> case_only (ar_path r) (ar_new r) = true ->
     lookup t (parent (ar_path r) ++ [probe_name]) = None /\
     forall r1, In r1 rs -> ar_new r1 <> parent (ar_path r) ++ [probe_name]) ->
  exists s',
    rename_stage no_fault (sort_renames rs) [] [] {| s_fs := t; s_n := 0; s_trace := [] |}
    = inl (s', stage_perf (sort_renames rs) [], stage_steps (sort_renames rs) [])
    /\ s_fs s' = map (fun e => (final_path rs (fst e), snd e)) t
    /\ (forall q n, lookup t q = Some n -> lookup (s_fs s') (final_path rs q) = Some n)
    /\ (forall q, lookup t q = None -> avoids rs q -> lookup (s_fs s') (final_path rs q) = None).
Proof. exact rename_stage_fs. Qed.

(* THE COMPOSITION: for every plan and tree satisfying plan_ok (Proofs/ApplySpecP.v: distinct keys; every hunk's file is a
   regular file with UTF-8 content on which the file's edits, sorted, are well formed; its temp name is absent; the renames
   satisfy the hypotheses of C02_rename_stage_fs) the fault-free run of the model of apply_plan succeeds and leaves exactly
   the reference meaning of the plan, spec_apply p t, as a finite map (a permutation of the association list with distinct
   keys: the content stage re-inserts a rewritten file at the head, so list equality is false, ApplySpecP.Witness.list_equality_refuted),
   and r_performed lists every planned rename once, in execution order, re-based *)
Theorem C02_apply_is_spec : forall p t, plan_ok p t ->
  r_ok (apply_core no_fault p t) = true /\
  r_fail (apply_core no_fault p t) = None /\
  Permutation (r_fs (apply_core no_fault p t)) (spec_apply p t) /\
  NoDup (keys (spec_apply p t)) /\
  NoDup (keys (r_fs (apply_core no_fault p t))) /\
  (forall q, lookup (r_fs (apply_core no_fault p t)) q = lookup (spec_apply p t) q) /\
  r_performed (apply_core no_fault p t) = stage_perf (sort_renames (ap_renames p)) [].
Proof. exact apply_is_spec. Qed.

(* "and nothing else": a path that is neither edited nor at or below a renamed path keeps its node; nothing appears *)
Theorem C02_bystander_untouched : forall p t q n,
  plan_ok p t -> lookup t q = Some n ->
  (forall h, In h (ap_hunks p) -> ah_file h <> q) ->
  (forall r, In r (ap_renames p) -> path_prefix (ar_path r) q = false) ->
  lookup (r_fs (apply_core no_fault p t)) q = Some n.
Proof. exact apply_bystander. Qed.

Theorem C02_nothing_appears : forall p t q,
  plan_ok p t -> lookup t q = None ->
  (forall r, In r (ap_renames p) -> path_prefix (ar_path r) q = false) ->
  (forall r, In r (ap_renames p) -> path_prefix (ar_new r) q = false) ->
  lookup (r_fs (apply_core no_fault p t)) q = None.
Proof. exact apply_nothing_appears. Qed.

Theorem C02_node_count : forall p t, plan_ok p t -> length (r_fs (apply_core no_fault p t)) = length t.
Proof. exact apply_node_count. Qed.

(* a file that is edited (and possibly moved, itself or with a directory above it) ends at its final path with the
   reference splice of its ORIGINAL content and its mode *)
Theorem C02_edited_file : forall p t h m c,
  plan_ok p t -> In h (ap_hunks p) -> lookup t (ah_file h) = Some (File m c) ->
  lookup (r_fs (apply_core no_fault p t)) (final_path (ap_renames p) (ah_file h))
  = Some (File m (spec_splice c (sort_edits (edits_of (ap_hunks p) (ah_file h))))).
Proof. exact apply_edited_file. Qed.

(* the edit hypothesis of plan_ok in elementary terms, independent of the order in which the plan lists the hunks:
   each recorded text is at its offsets, edits are non-empty and pairwise disjoint *)
Theorem C02_hunks_wf : forall hs f c,
  (forall h, In h hs -> ah_file h = f -> good_edit c (edit_of h)) ->
  ForallOrdPairs (fun h1 h2 => ah_file h1 = ah_file h2 -> disjoint (edit_of h1) (edit_of h2)) hs ->
  wf_edits c (sort_edits (edits_of hs f)) = true.
Proof. exact hunks_wf. Qed.

(* non-vacuity: a directory rename containing an edited file that is itself renamed, two bystanders *)
Theorem C02_plan_ok_instance : plan_ok Witness.p0 Witness.t0.
Proof. exact Witness.p0_ok. Qed.

Print Assumptions C02_apply_is_spec.
Print Assumptions C02_bystander_untouched.
Print Assumptions C02_nothing_appears.
Print Assumptions C02_node_count.
Print Assumptions C02_edited_file.
Print Assumptions C02_hunks_wf.
Print Assumptions C02_plan_ok_instance.
Print Assumptions C02_splice_is_spec.
Print Assumptions C02_rename_stage_reaches_final_path.
Print Assumptions C02_rename_stage_fs.
Print Assumptions C02_stale_rejected.
