(* Props/C20.v — Every command line the wrappers build is accepted by the CLI.  Statements only.
   gen_builders: the 18 args-builders translated from the TypeScript sources on this run (Gen/GenWrappers.v);
   gen_globals / gen_cli: the grammar dumped from the real clap Command on this run (Gen/GenCli.v);
   all_opts: every subset of a builder's optional fields x the representative values of each field;
   known_class: the recorded findings (known_findings.json). *)
From RN Require Import Base.Bytes Model.ClapDef Model.Clap Model.Wrappers Gen.GenCli Gen.GenWrappers.
From RN Require Proofs.WrappersP.

Theorem C20_wrappers_accepted : forall name f fields o,
  In (name, f, fields) gen_builders -> In o (all_opts fields) -> known_class name o = false ->
  exists seen, accepts gen_globals gen_cli (f o) = POk seen.
Proof. exact WrappersP.C20_wrappers_accepted. Qed.
Print Assumptions C20_wrappers_accepted.

Theorem C20_space_is_all_subsets : forall fields o,
  In o (all_opts fields) <->
  Forall2 (fun (fd : bytes * bool * list fval) (kv : bytes * fval) =>
             fst kv = fst (fst fd) /\ ((snd (fst fd) = true /\ snd kv = FAbsent) \/ In (snd kv) (snd fd)))
          fields o.
Proof. exact WrappersP.all_opts_spec. Qed.
Print Assumptions C20_space_is_all_subsets.

Theorem C20_space_nonempty :
  forallb (fun b => match b with (_, _, fs) => negb (Nat.eqb (length (all_opts fs)) 0) end) gen_builders = true.
Proof. exact WrappersP.space_nonempty. Qed.
Print Assumptions C20_space_nonempty.

Theorem C20_parser_fuel_adequate : forall f1 f2 args toks npos seen op,
  (length toks < f1)%nat -> (length toks < f2)%nat ->
  parse_tokens f1 args toks npos seen op = parse_tokens f2 args toks npos seen op.
Proof. exact WrappersP.parse_tokens_fuel. Qed.
Print Assumptions C20_parser_fuel_adequate.
