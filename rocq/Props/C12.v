(* Props/C12.v — The workspace lock gives mutual exclusion.  Statements only. *)
From RN Require Import Model.Lock Proofs.LockP Proofs.LockClosure Gen.GenLock.

(* The full statement — for every reachable world of any number of processes at most one is in its
   critical section, and no process removes the lock of a running holder — is FALSE of the faithful
   model of lock.rs.  Machine-checked schedules: *)

(* (1) a stale lock file, two processes starting concurrently: both take over *)
Theorem C12_mutex_refuted_stale :
  exists w, exec w_stale sched_stale = Some w /\ in_critical w = [1; 2] /\ mutex w = false.
Proof. exact stale_two_holders. Qed.

(* ... and on the way process 2 deletes the lock file of the running holder 1 *)
Theorem C12_foreign_removal_refuted :
  exists w w', exec w_stale (firstn 8 sched_stale) = Some w /\ exec1 w (Step 2) = Some w' /\
               lock w = Some (CValid 1 1000) /\ in_critical w = [1] /\ lock w' = None.
Proof. exact stale_foreign_removal. Qed.

(* (2) no stale lock, no clock tick, no crash, three processes: a lock read just before its owner
   finished is later judged orphaned and the file - by then another process's - is deleted *)
Theorem C12_mutex_refuted_aba :
  exists w, exec w_fresh3 sched_aba = Some w /\ in_critical w = [2; 3] /\ mutex w = false.
Proof. exact aba_two_holders. Qed.

(* What does hold: *)
(* two processes starting concurrently on a workspace without a lock file: under EVERY interleaving of
   their file-system calls, with either of them crashing at any point, at most one is ever in its
   critical section (the clock does not pass the stale timeout during the run) *)
Theorem C12_two_fresh_processes_mutex : forall es w,
  Forall ev12 es -> exec w2 es = Some w -> mutex w = true.
Proof. exact two_fresh_processes_mutex. Qed.

(* a process that reads the lock of a live holder with a fresh timestamp exits without touching it *)
Theorem C12_live_fresh_holder_respected : forall w p o ts,
  get_pc (procs w) p = Some (PRead (CValid o ts)) ->
  now w - ts <= stale_secs -> running w o = true ->
  exists w', step w p = Some w' /\ lock w' = lock w /\ get_pc (procs w') p = Some (PDone false).
Proof. exact live_fresh_holder_respected. Qed.

(* once the holder's Drop has run, the lock file is gone *)
Theorem C12_drop_releases : forall w p w',
  get_pc (procs w) p = Some PDropRemove -> step w p = Some w' -> lock w' = None.
Proof. exact drop_releases. Qed.

(* every mutating command goes through a code path that acquires the lock (table regenerated from the
   source: a command whose handler stops calling LockFile::acquire breaks this computation), and the
   stale timeout the model uses is the one in lock.rs *)
Theorem C12_all_mutating_commands_lock : forallb gen_takes_lock gen_mutating_commands = true.
Proof. vm_compute. reflexivity. Qed.
Theorem C12_stale_timeout_is_source : stale_secs = gen_stale_secs.
Proof. vm_compute. reflexivity. Qed.

Print Assumptions C12_all_mutating_commands_lock.
Print Assumptions C12_mutex_refuted_stale.
Print Assumptions C12_foreign_removal_refuted.
Print Assumptions C12_mutex_refuted_aba.
Print Assumptions C12_two_fresh_processes_mutex.
Print Assumptions C12_live_fresh_holder_respected.
Print Assumptions C12_drop_releases.
