(* Props/C17.v — Plans survive being saved and reloaded.  Statements only. *)
From RN Require Import Base.Bytes Model.SerdeAttr Gen.GenSerde Model.Serde Proofs.SerdeP.

(* every plan value (any hunks, any renames, empty replacement, any byte strings) is read back
   exactly as it was written, under the serde attributes found in the current source *)
Theorem C17_plan_roundtrip : forall p : plan, dec_plan (enc_plan p) = Some p.
Proof. exact plan_roundtrip. Qed.

(* hence whatever is computed from the reloaded plan (apply, undo, redo, preview) is what is
   computed from the plan in memory *)
Theorem C17_apply_same :
  forall (A : Type) (run : plan -> A) (p p' : plan), dec_plan (enc_plan p) = Some p' -> run p' = run p.
Proof. intros A run p p' H. rewrite plan_roundtrip in H. inversion H. reflexivity. Qed.

Theorem C17_hunk_roundtrip : forall h, decode_hunk gen_matchhunk (encode_hunk gen_matchhunk h) = Some h.
Proof. exact hunk_roundtrip. Qed.

Theorem C17_rename_roundtrip : forall r, decode_rename gen_rename (encode_rename gen_rename r) = Some r.
Proof. exact rename_roundtrip. Qed.

(* history entries: no field is ever skipped, so nothing can go missing *)
Theorem C17_history_entry_never_skips :
  forallb (fun a => match fa_skip a with SkNever => true | _ => false end) gen_historyentry = true.
Proof. vm_compute. reflexivity. Qed.

Print Assumptions C17_plan_roundtrip.
Print Assumptions C17_apply_same.
Print Assumptions C17_hunk_roundtrip.
Print Assumptions C17_rename_roundtrip.
Print Assumptions C17_history_entry_never_skips.
