(* Props/C17.v — Plans survive being saved and reloaded.  Statements only. *)
From RN Require Import Base.Bytes Model.SerdeAttr Gen.GenSerde Model.Serde Proofs.SerdeP.
From RN Require Import Model.JsonText Proofs.JsonTextP.

(* every plan value (any hunks, any renames, empty replacement, any byte strings) is read back
   exactly as it was written, under the serde attributes found in the current source *)
Theorem C17_plan_roundtrip : forall p : plan, dec_plan (enc_plan p) = Some p.
Proof. exact plan_roundtrip. Qed.

(* hence whatever is computed from the reloaded plan (apply, undo, redo, preview) is what is
   computed from the plan in memory *)
Theorem C17_apply_same :
  forall (A : Type) (run : plan -> A) (p p' : plan), dec_plan (enc_plan p) = Some p' -> run p' = run p.
Proof. intros A run p p' H. rewrite plan_roundtrip in H. inversion H. reflexivity. Qed.

Theorem C17_hunk_roundtrip : forall h, decode_hunk gen_matchhunk (encode_hunk gen_matchhunk h) = Some h.
Proof. exact hunk_roundtrip. Qed.

Theorem C17_rename_roundtrip : forall r, decode_rename gen_rename (encode_rename gen_rename r) = Some r.
Proof. exact rename_roundtrip. Qed.

(* history entries: no field is ever skipped, so nothing can go missing *)
Theorem C17_history_entry_never_skips :
  forallb (fun a => match fa_skip a with SkNever => true | _ => false end) gen_historyentry = true.
Proof. vm_compute. reflexivity. Qed.

(* THE TEXT LAYER (Model/JsonText.v: serde_json's pretty and compact printers and its parser restated; tied byte for byte to the
   real serde_json by lib/jsontext_difftest.py): every JSON value whose numbers fit u64 and whose nesting is at most 127 - the two
   limits are serde_json's own (wf_json_number_needed, wf_json_depth_needed in Proofs/JsonTextP.v) - is parsed back from either
   text; strings and keys are arbitrary byte lists; no fuel hypothesis *)
Theorem C17_text_roundtrip_pretty : forall j, wf_json j -> parse (print_pretty j) = Some j.
Proof. exact parse_print_pretty. Qed.
Theorem C17_text_roundtrip_compact : forall j, wf_json j -> parse (print_compact j) = Some j.
Proof. exact parse_print_compact. Qed.

(* THE PLAN FILE: save_plan p = to_string_pretty(&plan), load_plan = from_str::<Plan>: every plan whose integer fields fit u64
   (all Rust plans: the fields are u64 / usize / u32) is read back from its file exactly as it was written *)
Theorem C17_plan_file_roundtrip : forall p : plan, plan_u64 p -> load_plan (save_plan p) = Some p.
Proof. exact JsonTextP.C17_plan_file_roundtrip. Qed.
Theorem C17_plan_file_apply_same :
  forall (A : Type) (run : plan -> A) (p p' : plan),
    plan_u64 p -> load_plan (save_plan p) = Some p' -> run p' = run p.
Proof. exact JsonTextP.C17_plan_file_apply_same. Qed.

Print Assumptions C17_text_roundtrip_pretty.
Print Assumptions C17_text_roundtrip_compact.
Print Assumptions C17_plan_file_roundtrip.
Print Assumptions C17_plan_file_apply_same.
Print Assumptions C17_plan_roundtrip.
Print Assumptions C17_apply_same.
Print Assumptions C17_hunk_roundtrip.
Print Assumptions C17_rename_roundtrip.
Print Assumptions C17_history_entry_never_skips.
