(* Props/C06.v — Every case style of the term is found and rewritten in the same style.  Statements only.
   acr: ANY well-formed acronym table (the table of the current source is one, C18); neutral words as in C18;
   vm: the variant table of case_model.rs (plural variants are an oracle and switched off here);
   find_iter / find_matches / is_boundary: the scanner model of pattern.rs (C03);
   dl, dr: the text left and right of the occurrence on its line — any strings of neutral delimiters
   (space, quotes, brackets, '/', ':', ',', ';', '=', '<', '>', tab; C06_standalone_ctx: any bytes that are
   neither alphanumeric nor '-' nor '_', which adds '.', newline and the empty context).
   Second clause (ambiguous occurrences): can_match_style is the model of case_constraints.rs (Model/Constraints.v
   over the per-style table translated from the source, Gen/GenConstraints.v; tied differentially).  The ambiguity
   resolver's contract — checked on the real resolver by lib/props/c06.py — is that it only returns a style the
   matched text can have; the theorems say that EVERY such style keeps the first letter's case and keeps an
   all-upper-case match upper case.
   NOT modelled: the tail of scanner.rs::generate_hunks (which heuristic the resolver uses, separator coercion) —
   its effect on these occurrences is decided on the real CLI by lib/props/c06.py. *)
From RN Require Import Base.Bytes Model.StyleDef Model.CaseModel Model.CaseSpec Model.Matcher.
From RN Require Import Model.ConstraintsDef Model.Constraints Model.Edits Model.Hunks Model.Compound Model.Enhanced Model.HunkTail.
From RN Require Import Gen.GenStyles.
From RN Require Import Model.Coercion.
From RN Require Import Proofs.StandaloneP Proofs.ConstraintsP Proofs.HunkTailP1 Proofs.HunkTailP Proofs.CoercionP Proofs.HunkTailP2.
From RN Require Import Gen.GenAcronyms Proofs.ScanFileP Proofs.ScanFileP2.
Close Scope N_scope.   (* ConstraintsP opens it; the statements below count in nat *)

(* an occurrence in an enabled visible style is the single match, passes the boundary test, and is mapped
   to the replacement written in that same style *)
Theorem C06_standalone : forall acr defaults amb S0 S1 S sw rw styles dl dr,
  wf_acr acr = true -> visible S0 = true -> visible S1 = true -> visible S = true ->
  (2 <= length sw)%nat -> rw <> [] -> all_neutral acr sw = true -> all_neutral acr rw = true ->
  In S styles -> delims dl = true -> delims dr = true ->
  let vm := variant_map_core acr defaults [] [] false amb (to_style acr sw S0) (to_style acr rw S1)
              (Some styles) in
  let occ := to_style acr sw S in
  let c := dl ++ occ ++ dr in
  find_iter (keys vm) c = [(length dl, length dl + length occ, occ)] /\
  is_boundary c (length dl) (length dl + length occ) = true /\
  find_matches (keys vm) c =
    [{| m_line := line_of c (length dl); m_col := col_of c (length dl);
        m_start := length dl; m_end := length dl + length occ; m_text := occ |}] /\
  amap_get occ vm = Some (to_style acr rw S).
Proof. exact StandaloneP.C06_standalone. Qed.

(* an occurrence in a style the user disabled is not matched at all *)
Theorem C06_disabled_untouched : forall acr defaults amb S0 S1 S sw rw styles dl dr,
  wf_acr acr = true -> visible S0 = true -> visible S1 = true -> visible S = true ->
  (2 <= length sw)%nat -> rw <> [] -> all_neutral acr sw = true -> all_neutral acr rw = true ->
  ~ In S styles -> noalpha dl = true -> noalpha dr = true ->
  let vm := variant_map_core acr defaults [] [] false amb (to_style acr sw S0) (to_style acr rw S1)
              (Some styles) in
  find_iter (keys vm) (dl ++ to_style acr sw S ++ dr) = [] /\
  find_matches (keys vm) (dl ++ to_style acr sw S ++ dr) = [].
Proof. exact StandaloneP.C06_disabled_untouched. Qed.

(* afterwards nothing is left to match, unless the letters of the search term occur inside the replacement *)
Theorem C06_none_left : forall acr defaults amb S0 S1 S sw rw styles dl dr,
  wf_acr acr = true -> visible S0 = true -> visible S1 = true ->
  sw <> [] -> rw <> [] -> all_neutral acr sw = true -> all_neutral acr rw = true ->
  is_infix (concat sw) (concat rw) = false -> noalpha dl = true -> noalpha dr = true ->
  let vm := variant_map_core acr defaults [] [] false amb (to_style acr sw S0) (to_style acr rw S1)
              (Some styles) in
  find_iter (keys vm) (dl ++ to_style acr rw S ++ dr) = [] /\
  find_matches (keys vm) (dl ++ to_style acr rw S ++ dr) = [].
Proof. exact StandaloneP.C06_none_left. Qed.

(* the boundary test accepts every context that is neither alphanumeric nor '-' nor '_' — for any matched text *)
Theorem C06_boundary_any_context : forall occ dl dr,
  ctxs dl = true -> ctxs dr = true ->
  is_boundary (dl ++ occ ++ dr) (length dl) (length dl + length occ) = true.
Proof. exact StandaloneP.standalone_boundary. Qed.

(* --- the tail of scanner.rs::generate_hunks (Model/HunkTail.v: filters, exact / ambiguous / compound choice, separator
   coercion at the match's own column, first-letter fix-up, line_before / line_after; tied hunk by hunk to the real
   scanner).  Oracles: the ambiguity resolver, coercion::apply_coercion (`coercion_fires`), apply_coercion_to_variant,
   detect_compound_coercion, the exclude-lines regex.  ONE fact is assumed, about apply_coercion only, read off
   coercion.rs (a container equal to the pattern up to case, after the _ / __ prefix, yields None) and checked on the real
   function on every run. --------------------------------------------------------------------------------------- *)

(* a multi-word occurrence in a visible style is compatible with exactly that style: the resolver is never consulted *)
Theorem C06_visible_unambiguous : forall acr ws S,
  all_neutral acr ws = true -> (2 <= length ws)%nat -> visible S = true ->
  filter_compatible acr (to_style acr ws S) gen_all_styles = [S] /\
  is_ambiguous acr (to_style acr ws S) gen_all_styles = false.
Proof. exact HunkTailP1.visible_unambiguous. Qed.

(* end to end for the standalone occurrence: ANY text before and after it (other identifiers, earlier copies of the same
   text, other lines) as long as the two neighbouring bytes are not alphanumeric, '_' or '-'; any options that do not
   exclude it; coercion on or off.  The hunk generate_hunks emits for it carries the replacement in the same style, and
   applying it rewrites exactly the occurrence. *)
Theorem C06_standalone_hunk : forall acr resolve coercion_fires coerce_variant compound_note line_excluded o repl
         defaults amb S0 S1 S sw rw styles dl dr,
  (forall container old new,
     lower (strip_us_prefix container) = lower old -> coercion_fires container old new = false) ->
  wf_acr acr = true -> visible S0 = true -> visible S1 = true -> visible S = true ->
  (2 <= length sw)%nat -> rw <> [] -> all_neutral acr sw = true -> all_neutral acr rw = true ->
  In S styles ->
  hd_is is_ident_char (rev dl) = false -> hd_is is_ident_char dr = false -> head_ok dr = true ->
  let vm := variant_map_core acr defaults [] [] false amb (to_style acr sw S0) (to_style acr rw S1) (Some styles) in
  let occ := to_style acr sw S in
  let new := to_style acr rw S in
  let c := dl ++ occ ++ dr in
  let line := after_nl dl ++ occ ++ upto_nl dr in
  mem occ (o_exclude_match o) = false -> line_excluded line = false ->
  let m := mk_ematch (line_of c (length dl)) (col_of c (length dl)) (length dl) (length dl + length occ) occ occ in
  let h := {| t_line := line_of c (length dl); t_col := length (after_nl dl);
              t_start := length dl; t_end := (length dl + length occ)%nat;
              t_variant := occ; t_content := occ; t_replace := new;
              t_before := line; t_after := after_nl dl ++ new ++ upto_nl dr; t_note := false |} in
  hunk_of_match acr resolve coercion_fires coerce_variant compound_note line_excluded o vm c repl m = Some h /\
  (forall ms, In m ms ->
     In h (generate_hunks acr resolve coercion_fires coerce_variant compound_note line_excluded o vm c repl ms)) /\
  apply_edits_rev c [edit_of_thunk h] = Ok (dl ++ new ++ dr).
Proof. exact HunkTailP.standalone_hunk_any_context. Qed.

(* the same with NO assumed fact: the three coercion oracles replaced by the model of coercion.rs (Model/Coercion.v, tied
   differentially to apply_coercion; its early return is now a theorem, CoercionP.co_early_return).  Left as parameters: the
   ambiguity resolver and the exclude-lines predicate, neither of which the statement depends on. *)
Theorem C06_standalone_hunk_no_assumption : forall acr resolve line_excluded o repl defaults amb S0 S1 S sw rw styles dl dr,
  wf_acr acr = true -> visible S0 = true -> visible S1 = true -> visible S = true ->
  (2 <= length sw)%nat -> rw <> [] -> all_neutral acr sw = true -> all_neutral acr rw = true ->
  In S styles ->
  hd_is is_ident_char (rev dl) = false -> hd_is is_ident_char dr = false -> head_ok dr = true ->
  let vm := variant_map_core acr defaults [] [] false amb (to_style acr sw S0) (to_style acr rw S1) (Some styles) in
  let occ := to_style acr sw S in
  let new := to_style acr rw S in
  let c := dl ++ occ ++ dr in
  let line := after_nl dl ++ occ ++ upto_nl dr in
  mem occ (o_exclude_match o) = false -> line_excluded line = false ->
  let m := mk_ematch (line_of c (length dl)) (col_of c (length dl)) (length dl) (length dl + length occ) occ occ in
  let h := {| t_line := line_of c (length dl); t_col := length (after_nl dl);
              t_start := length dl; t_end := (length dl + length occ)%nat;
              t_variant := occ; t_content := occ; t_replace := new;
              t_before := line; t_after := after_nl dl ++ new ++ upto_nl dr; t_note := false |} in
  hunk_of_match_m acr resolve line_excluded o vm c repl m = Some h /\
  (forall ms, In m ms -> In h (generate_hunks_m acr resolve line_excluded o vm c repl ms)) /\
  apply_edits_rev c [edit_of_thunk h] = Ok (dl ++ new ++ dr).
Proof. exact HunkTailP2.standalone_hunk_any_context_m. Qed.

(* with the delimiter contexts of C06_standalone the scanner's single match yields exactly this one hunk *)
Theorem C06_standalone_plan : forall acr resolve coercion_fires coerce_variant compound_note coerce_auto repl
         defaults amb S0 S1 S sw rw styles dl dr,
  (forall container old new,
     lower (strip_us_prefix container) = lower old -> coercion_fires container old new = false) ->
  wf_acr acr = true -> visible S0 = true -> visible S1 = true -> visible S = true ->
  (2 <= length sw)%nat -> rw <> [] -> all_neutral acr sw = true -> all_neutral acr rw = true ->
  In S styles -> delims dl = true -> delims dr = true ->
  let vm := variant_map_core acr defaults [] [] false amb (to_style acr sw S0) (to_style acr rw S1) (Some styles) in
  let occ := to_style acr sw S in  let new := to_style acr rw S in
  let c := dl ++ occ ++ dr in
  let o := {| o_ignore_ambiguous := false; o_exclude_match := []; o_coerce_auto := coerce_auto |} in
  let h := {| t_line := 1; t_col := length dl; t_start := length dl; t_end := (length dl + length occ)%nat;
              t_variant := occ; t_content := occ; t_replace := new;
              t_before := c; t_after := dl ++ new ++ dr; t_note := false |} in
  exists m,
    find_matches (keys vm) c = [m] /\
    hunk_of_match acr resolve coercion_fires coerce_variant compound_note (fun _ => false) o vm c repl
      (ematch_of_exact m) = Some h /\
    generate_hunks acr resolve coercion_fires coerce_variant compound_note (fun _ => false) o vm c repl
      (map ematch_of_exact (find_matches (keys vm) c)) = [h] /\
    apply_edits_rev c [edit_of_thunk h] = Ok (dl ++ new ++ dr).
Proof. exact HunkTailP.standalone_hunk_same_style. Qed.

(* the match filters only ever drop hunks: what is listed is the kept matches, in order, with their own spans *)
Theorem C06_hunks_are_kept_matches : forall acr resolve coercion_fires coerce_variant compound_note line_excluded o vm c repl h ms,
  In h (generate_hunks acr resolve coercion_fires coerce_variant compound_note line_excluded o vm c repl ms) <->
  exists m, In m ms /\ hunk_of_match acr resolve coercion_fires coerce_variant compound_note line_excluded o vm c repl m = Some h.
Proof. exact HunkTailP.generate_hunks_In. Qed.

(* --- second clause: whatever compatible style is chosen for an ambiguous occurrence ------------------- *)
(* the first letter keeps its case *)
Theorem C06_first_upper_kept : forall acr text S rw,
  can_match_style acr text S = true ->
  (exists c rest, text = c :: rest /\ is_upper c = true) ->
  all_neutral acr rw = true -> rw <> [] ->
  exists c' rest', to_style acr rw S = c' :: rest' /\ is_upper c' = true.
Proof. exact ConstraintsP.compatible_first_upper. Qed.

Theorem C06_first_lower_kept : forall acr text S rw,
  can_match_style acr text S = true ->
  (exists c rest, text = c :: rest /\ is_lower c = true) ->
  all_neutral acr rw = true -> rw <> [] ->
  exists c' rest', to_style acr rw S = c' :: rest' /\ is_lower c' = true.
Proof. exact ConstraintsP.compatible_first_lower. Qed.

(* an all-upper-case match (two leading upper-case letters, not excused by the acronym table) stays all upper case *)
Theorem C06_all_upper_kept : forall acr text S rw c1 c2 rest,
  can_match_style acr text S = true ->
  existsb is_lower text = false ->
  text = c1 :: c2 :: rest -> is_upper c1 = true -> is_upper c2 = true ->
  acr_excused acr text = false ->
  all_neutral acr rw = true ->
  existsb is_lower (to_style acr rw S) = false /\
  (rw <> [] -> existsb is_upper (to_style acr rw S) = true).
Proof. exact ConstraintsP.all_upper_stays_upper. Qed.

(* and the only styles such a text is compatible with are the four upper-case styles *)
Theorem C06_all_upper_styles : forall acr text S c1 c2 rest,
  can_match_style acr text S = true ->
  existsb is_lower text = false ->
  text = c1 :: c2 :: rest -> is_upper c1 = true -> is_upper c2 = true ->
  acr_excused acr text = false ->
  upper_style S = true.
Proof. exact ConstraintsP.compatible_all_upper. Qed.

(* ONE FILE, END TO END through the scanner the CLI really runs (compound_scanner.rs::find_enhanced_matches: exact pass,
   identifier extraction, compound pass, sort, overlap resolution) composed with the tail of scanner.rs::generate_hunks
   (coercion by the model of coercion.rs): a standalone occurrence in an enabled visible style yields exactly one hunk, the
   same-style rewrite, and applying its edit rewrites the file to dl ++ new ++ dr.  The compound pass adds nothing.
   Added hypothesis: the words are also neutral for the table of the current source (gen_acronyms), with which
   compound_scanner.rs tokenises the search term. *)
Theorem C06_scan_file_standalone :
  forall acr resolve line_excluded o defaults amb S0 S1 S sw rw styles dl dr extra,
  wf_acr acr = true -> visible S0 = true -> visible S1 = true -> visible S = true ->
  (2 <= length sw)%nat -> rw <> [] -> all_neutral acr sw = true -> all_neutral acr rw = true ->
  all_neutral gen_acronyms sw = true ->
  In S styles -> ctxs dl = true -> ctxs dr = true -> head_ok dr = true ->
  let search := to_style acr sw S0 in
  let repl := to_style acr rw S1 in
  let vm := variant_map_core acr defaults [] [] false amb search repl (Some styles) in
  let occ := to_style acr sw S in
  let new := to_style acr rw S in
  let c := dl ++ occ ++ dr in
  let line := after_nl dl ++ occ ++ upto_nl dr in
  mem occ (o_exclude_match o) = false -> line_excluded line = false ->
  let h := {| t_line := line_of c (length dl); t_col := length (after_nl dl);
              t_start := length dl; t_end := (length dl + length occ)%nat;
              t_variant := occ; t_content := occ; t_replace := new;
              t_before := line; t_after := after_nl dl ++ new ++ upto_nl dr; t_note := false |} in
  generate_hunks_m acr resolve line_excluded o vm c repl
    (find_enhanced_matches c search repl (keys vm) styles extra) = [h] /\
  apply_edits_rev c [edit_of_thunk h] = Ok (dl ++ new ++ dr).
Proof. exact ScanFileP.scan_file_standalone. Qed.

(* and an occurrence written in a DISABLED visible style - any of the twelve - is left alone by the whole scanner, compound
   pass included: no match, no hunk.  For Snake / ScreamingSnake / Camel / Pascal the extractor reports the occurrence as one
   identifier; for Kebab / ScreamingTrain / Dot (and Train when Title is off) as one identifier or its dot-split words; for
   Title / Sentence / LowerSentence / UpperSentence (and Train when Title is on) as single words - and the compound matcher
   returns nothing on each of them (Proofs/ScanFileP.v, ScanFileP2.v) *)
Theorem C06_scan_file_disabled_untouched :
  forall acr defaults amb S0 S1 S sw rw styles dl dr extra,
  wf_acr acr = true -> visible S0 = true -> visible S1 = true -> visible S = true ->
  (2 <= length sw)%nat -> rw <> [] -> all_neutral acr sw = true -> all_neutral acr rw = true ->
  all_neutral gen_acronyms sw = true ->
  ~ In S styles -> ctxs dl = true -> ctxs dr = true ->
  let search := to_style acr sw S0 in
  let repl := to_style acr rw S1 in
  let vm := variant_map_core acr defaults [] [] false amb search repl (Some styles) in
  let c := dl ++ to_style acr sw S ++ dr in
  find_enhanced_matches c search repl (keys vm) styles extra = [] /\
  forall resolve line_excluded o,
    generate_hunks_m acr resolve line_excluded o vm c repl
      (find_enhanced_matches c search repl (keys vm) styles extra) = [].
Proof. exact ScanFileP2.scan_file_disabled_untouched. Qed.

Print Assumptions C06_scan_file_standalone.
Print Assumptions C06_scan_file_disabled_untouched.
Print Assumptions C06_visible_unambiguous.
Print Assumptions C06_standalone_hunk.
Print Assumptions C06_standalone_hunk_no_assumption.
Print Assumptions C06_standalone_plan.
Print Assumptions C06_hunks_are_kept_matches.
Print Assumptions C06_standalone.
Print Assumptions C06_first_upper_kept.
Print Assumptions C06_first_lower_kept.
Print Assumptions C06_all_upper_kept.
Print Assumptions C06_all_upper_styles.
Print Assumptions C06_disabled_untouched.
Print Assumptions C06_none_left.
Print Assumptions C06_boundary_any_context.
