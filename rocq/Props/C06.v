(* Props/C06.v — Every case style of the term is found and rewritten in the same style.  Statements only.
   acr: ANY well-formed acronym table (the table of the current source is one, C18); neutral words as in C18;
   vm: the variant table of case_model.rs (plural variants are an oracle and switched off here);
   find_iter / find_matches / is_boundary: the scanner model of pattern.rs (C03);
   dl, dr: the text left and right of the occurrence on its line — any strings of neutral delimiters
   (space, quotes, brackets, '/', ':', ',', ';', '=', '<', '>', tab; C06_standalone_ctx: any bytes that are
   neither alphanumeric nor '-' nor '_', which adds '.', newline and the empty context).
   Second clause (ambiguous occurrences): can_match_style is the model of case_constraints.rs (Model/Constraints.v
   over the per-style table translated from the source, Gen/GenConstraints.v; tied differentially).  The ambiguity
   resolver's contract — checked on the real resolver by lib/props/c06.py — is that it only returns a style the
   matched text can have; the theorems say that EVERY such style keeps the first letter's case and keeps an
   all-upper-case match upper case.
   NOT modelled: the tail of scanner.rs::generate_hunks (which heuristic the resolver uses, separator coercion) —
   its effect on these occurrences is decided on the real CLI by lib/props/c06.py. *)
From RN Require Import Base.Bytes Model.StyleDef Model.CaseModel Model.CaseSpec Model.Matcher.
From RN Require Import Model.ConstraintsDef Model.Constraints.
From RN Require Import Proofs.StandaloneP Proofs.ConstraintsP.
Close Scope N_scope.   (* ConstraintsP opens it; the statements below count in nat *)

(* an occurrence in an enabled visible style is the single match, passes the boundary test, and is mapped
   to the replacement written in that same style *)
Theorem C06_standalone : forall acr defaults amb S0 S1 S sw rw styles dl dr,
  wf_acr acr = true -> visible S0 = true -> visible S1 = true -> visible S = true ->
  (2 <= length sw)%nat -> rw <> [] -> all_neutral acr sw = true -> all_neutral acr rw = true ->
  In S styles -> delims dl = true -> delims dr = true ->
  let vm := variant_map_core acr defaults [] [] false amb (to_style acr sw S0) (to_style acr rw S1)
              (Some styles) in
  let occ := to_style acr sw S in
  let c := dl ++ occ ++ dr in
  find_iter (keys vm) c = [(length dl, length dl + length occ, occ)] /\
  is_boundary c (length dl) (length dl + length occ) = true /\
  find_matches (keys vm) c =
    [{| m_line := line_of c (length dl); m_col := col_of c (length dl);
        m_start := length dl; m_end := length dl + length occ; m_text := occ |}] /\
  amap_get occ vm = Some (to_style acr rw S).
Proof. exact StandaloneP.C06_standalone. Qed.

(* an occurrence in a style the user disabled is not matched at all *)
Theorem C06_disabled_untouched : forall acr defaults amb S0 S1 S sw rw styles dl dr,
  wf_acr acr = true -> visible S0 = true -> visible S1 = true -> visible S = true ->
  (2 <= length sw)%nat -> rw <> [] -> all_neutral acr sw = true -> all_neutral acr rw = true ->
  ~ In S styles -> noalpha dl = true -> noalpha dr = true ->
  let vm := variant_map_core acr defaults [] [] false amb (to_style acr sw S0) (to_style acr rw S1)
              (Some styles) in
  find_iter (keys vm) (dl ++ to_style acr sw S ++ dr) = [] /\
  find_matches (keys vm) (dl ++ to_style acr sw S ++ dr) = [].
Proof. exact StandaloneP.C06_disabled_untouched. Qed.

(* afterwards nothing is left to match, unless the letters of the search term occur inside the replacement *)
Theorem C06_none_left : forall acr defaults amb S0 S1 S sw rw styles dl dr,
  wf_acr acr = true -> visible S0 = true -> visible S1 = true ->
  sw <> [] -> rw <> [] -> all_neutral acr sw = true -> all_neutral acr rw = true ->
  is_infix (concat sw) (concat rw) = false -> noalpha dl = true -> noalpha dr = true ->
  let vm := variant_map_core acr defaults [] [] false amb (to_style acr sw S0) (to_style acr rw S1)
              (Some styles) in
  find_iter (keys vm) (dl ++ to_style acr rw S ++ dr) = [] /\
  find_matches (keys vm) (dl ++ to_style acr rw S ++ dr) = [].
Proof. exact StandaloneP.C06_none_left. Qed.

(* the boundary test accepts every context that is neither alphanumeric nor '-' nor '_' — for any matched text *)
Theorem C06_boundary_any_context : forall occ dl dr,
  ctxs dl = true -> ctxs dr = true ->
  is_boundary (dl ++ occ ++ dr) (length dl) (length dl + length occ) = true.
Proof. exact StandaloneP.standalone_boundary. Qed.

(* --- second clause: whatever compatible style is chosen for an ambiguous occurrence ------------------- *)
(* the first letter keeps its case *)
Theorem C06_first_upper_kept : forall acr text S rw,
  can_match_style acr text S = true ->
  (exists c rest, text = c :: rest /\ is_upper c = true) ->
  all_neutral acr rw = true -> rw <> [] ->
  exists c' rest', to_style acr rw S = c' :: rest' /\ is_upper c' = true.
Proof. exact ConstraintsP.compatible_first_upper. Qed.

Theorem C06_first_lower_kept : forall acr text S rw,
  can_match_style acr text S = true ->
  (exists c rest, text = c :: rest /\ is_lower c = true) ->
  all_neutral acr rw = true -> rw <> [] ->
  exists c' rest', to_style acr rw S = c' :: rest' /\ is_lower c' = true.
Proof. exact ConstraintsP.compatible_first_lower. Qed.

(* an all-upper-case match (two leading upper-case letters, not excused by the acronym table) stays all upper case *)
Theorem C06_all_upper_kept : forall acr text S rw c1 c2 rest,
  can_match_style acr text S = true ->
  existsb is_lower text = false ->
  text = c1 :: c2 :: rest -> is_upper c1 = true -> is_upper c2 = true ->
  acr_excused acr text = false ->
  all_neutral acr rw = true ->
  existsb is_lower (to_style acr rw S) = false /\
  (rw <> [] -> existsb is_upper (to_style acr rw S) = true).
Proof. exact ConstraintsP.all_upper_stays_upper. Qed.

(* and the only styles such a text is compatible with are the four upper-case styles *)
Theorem C06_all_upper_styles : forall acr text S c1 c2 rest,
  can_match_style acr text S = true ->
  existsb is_lower text = false ->
  text = c1 :: c2 :: rest -> is_upper c1 = true -> is_upper c2 = true ->
  acr_excused acr text = false ->
  upper_style S = true.
Proof. exact ConstraintsP.compatible_all_upper. Qed.

Print Assumptions C06_standalone.
Print Assumptions C06_first_upper_kept.
Print Assumptions C06_first_lower_kept.
Print Assumptions C06_all_upper_kept.
Print Assumptions C06_all_upper_styles.
Print Assumptions C06_disabled_untouched.
Print Assumptions C06_none_left.
Print Assumptions C06_boundary_any_context.
