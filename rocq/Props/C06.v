(* Props/C06.v — Every case style of the term is found and rewritten in the same style.  Statements only.
   acr: ANY well-formed acronym table (the table of the current source is one, C18); neutral words as in C18;
   vm: the variant table of case_model.rs (plural variants are an oracle and switched off here);
   find_iter / find_matches / is_boundary: the scanner model of pattern.rs (C03);
   dl, dr: the text left and right of the occurrence on its line — any strings of neutral delimiters
   (space, quotes, brackets, '/', ':', ',', ';', '=', '<', '>', tab; C06_standalone_ctx: any bytes that are
   neither alphanumeric nor '-' nor '_', which adds '.', newline and the empty context).
   NOT modelled: the tail of scanner.rs::generate_hunks (ambiguity re-resolution, separator coercion) — its
   effect on these occurrences is decided on the real CLI by lib/props/c06.py. *)
From RN Require Import Base.Bytes Model.StyleDef Model.CaseModel Model.CaseSpec Model.Matcher.
From RN Require Import Proofs.StandaloneP.

(* an occurrence in an enabled visible style is the single match, passes the boundary test, and is mapped
   to the replacement written in that same style *)
Theorem C06_standalone : forall acr defaults amb S0 S1 S sw rw styles dl dr,
  wf_acr acr = true -> visible S0 = true -> visible S1 = true -> visible S = true ->
  (2 <= length sw) -> rw <> [] -> all_neutral acr sw = true -> all_neutral acr rw = true ->
  In S styles -> delims dl = true -> delims dr = true ->
  let vm := variant_map_core acr defaults [] [] false amb (to_style acr sw S0) (to_style acr rw S1)
              (Some styles) in
  let occ := to_style acr sw S in
  let c := dl ++ occ ++ dr in
  find_iter (keys vm) c = [(length dl, length dl + length occ, occ)] /\
  is_boundary c (length dl) (length dl + length occ) = true /\
  find_matches (keys vm) c =
    [{| m_line := line_of c (length dl); m_col := col_of c (length dl);
        m_start := length dl; m_end := length dl + length occ; m_text := occ |}] /\
  amap_get occ vm = Some (to_style acr rw S).
Proof. exact StandaloneP.C06_standalone. Qed.

(* an occurrence in a style the user disabled is not matched at all *)
Theorem C06_disabled_untouched : forall acr defaults amb S0 S1 S sw rw styles dl dr,
  wf_acr acr = true -> visible S0 = true -> visible S1 = true -> visible S = true ->
  (2 <= length sw) -> rw <> [] -> all_neutral acr sw = true -> all_neutral acr rw = true ->
  ~ In S styles -> noalpha dl = true -> noalpha dr = true ->
  let vm := variant_map_core acr defaults [] [] false amb (to_style acr sw S0) (to_style acr rw S1)
              (Some styles) in
  find_iter (keys vm) (dl ++ to_style acr sw S ++ dr) = [] /\
  find_matches (keys vm) (dl ++ to_style acr sw S ++ dr) = [].
Proof. exact StandaloneP.C06_disabled_untouched. Qed.

(* afterwards nothing is left to match, unless the letters of the search term occur inside the replacement *)
Theorem C06_none_left : forall acr defaults amb S0 S1 S sw rw styles dl dr,
  wf_acr acr = true -> visible S0 = true -> visible S1 = true ->
  sw <> [] -> rw <> [] -> all_neutral acr sw = true -> all_neutral acr rw = true ->
  is_infix (concat sw) (concat rw) = false -> noalpha dl = true -> noalpha dr = true ->
  let vm := variant_map_core acr defaults [] [] false amb (to_style acr sw S0) (to_style acr rw S1)
              (Some styles) in
  find_iter (keys vm) (dl ++ to_style acr rw S ++ dr) = [] /\
  find_matches (keys vm) (dl ++ to_style acr rw S ++ dr) = [].
Proof. exact StandaloneP.C06_none_left. Qed.

(* the boundary test accepts every context that is neither alphanumeric nor '-' nor '_' — for any matched text *)
Theorem C06_boundary_any_context : forall occ dl dr,
  ctxs dl = true -> ctxs dr = true ->
  is_boundary (dl ++ occ ++ dr) (length dl) (length dl + length occ) = true.
Proof. exact StandaloneP.standalone_boundary. Qed.

Print Assumptions C06_standalone.
Print Assumptions C06_disabled_untouched.
Print Assumptions C06_none_left.
Print Assumptions C06_boundary_any_context.
