(* Props/C18.v — Case conversion is a consistent algebra.  Statements only.
   acr is ANY acronym table whose entries have >= 2 bytes, upper-case letters / digits only (wf_acr);
   the table of the current source satisfies it (C18_source_table_wf).  A neutral word has >= 3
   lower-case letters, is not itself a table entry and cannot be split by the acronym look-ahead. *)
From RN Require Import Base.Bytes Model.StyleDef Model.CaseModel Model.CaseSpec Gen.GenStyles Gen.GenAcronyms.
From RN Require Proofs.CaseP.

Theorem C18_roundtrip : forall acr S ws,
  wf_acr acr = true -> visible S = true -> ws <> [] -> all_neutral acr ws = true ->
  map lower (tokens acr (to_style acr ws S)) = ws.
Proof. exact CaseP.C18_roundtrip. Qed.

Theorem C18_detect : forall acr S ws,
  wf_acr acr = true -> visible S = true -> (2 <= length ws)%nat -> all_neutral acr ws = true ->
  detect_style acr (to_style acr ws S) = Some S.
Proof. exact CaseP.C18_detect. Qed.

Theorem C18_idempotent : forall acr S ws,
  wf_acr acr = true -> ws <> [] -> all_neutral acr ws = true ->
  to_style acr (tokens acr (to_style acr ws S)) S = to_style acr ws S.
Proof. exact CaseP.C18_idempotent. Qed.

Theorem C18_render_style_injective : forall acr S S' ws,
  wf_acr acr = true -> visible S = true -> (2 <= length ws)%nat -> all_neutral acr ws = true ->
  to_style acr ws S = to_style acr ws S' -> S = S'.
Proof. exact CaseP.C18_render_style_injective. Qed.

(* the variant table (plural variants off; the pluraliser is an oracle) maps the search term in each
   enabled visible style to the replacement in that same style, whatever visible style the two terms
   were typed in *)
Theorem C18_variant_table_core : forall acr defaults S0 S1 sw rw styles S amb,
  wf_acr acr = true -> visible S0 = true -> visible S1 = true -> visible S = true ->
  (2 <= length sw)%nat -> rw <> [] -> all_neutral acr sw = true -> all_neutral acr rw = true ->
  In S styles ->
  amap_get (to_style acr sw S)
    (variant_map_core acr defaults [] [] false amb (to_style acr sw S0) (to_style acr rw S1) (Some styles))
  = Some (to_style acr rw S).
Proof. exact CaseP.C18_variant_table_core. Qed.

Theorem C18_tokens_total : forall acr s, parse_to_tokens acr s <> None.
Proof. exact CaseP.tokens_total. Qed.

(* the table in acronym.rs today satisfies the side condition *)
Theorem C18_source_table_wf : wf_acr gen_acronyms = true.
Proof. exact CaseP.gen_acronyms_wf. Qed.

Theorem C18_all_styles_complete : length gen_all_styles = 14%nat /\ NoDup gen_all_styles.
Proof.
  split; [reflexivity|].
  repeat (constructor; [cbn; intuition discriminate|]). constructor.
Qed.

(* non-vacuity: words that exercise the acronym look-ahead (api-ary, ide-al, id-ex...) are neutral *)
Example C18_neutral_examples :
  all_neutral gen_acronyms
    [[97;112;105;97;114;121]; [105;100;101;97;108]; [105;110;100;101;120]; [119;105;100;103;101;116]] = true.
Proof. vm_compute. reflexivity. Qed.

(* two-letter words are outside "neutral" for a reason: typed in upper case they are kept as if
   they were acronyms (capitalize_first keeps <= 2 upper-case bytes) *)
Example C18_two_letter_upper_kept :
  to_style gen_acronyms (tokens gen_acronyms [71;79;95;85;80]) Pascal = [71;79;85;80].   (* GO_UP -> GOUP *)
Proof. vm_compute. reflexivity. Qed.

Print Assumptions C18_roundtrip.
Print Assumptions C18_detect.
Print Assumptions C18_idempotent.
Print Assumptions C18_render_style_injective.
Print Assumptions C18_variant_table_core.
Print Assumptions C18_tokens_total.
Print Assumptions C18_source_table_wf.
