(* Props/C18.v — placeholder until the proofs land; statements are added with their proofs. *)
From RN Require Import Base.Bytes Model.StyleDef Model.CaseModel Gen.GenStyles Gen.GenAcronyms.

Theorem C18_all_styles_complete : length gen_all_styles = 14%nat /\ NoDup gen_all_styles.
Proof.
  split; [reflexivity|].
  repeat (constructor; [cbn; intuition discriminate|]). constructor.
Qed.
Print Assumptions C18_all_styles_complete.
