(* Props/C04.v — A failed apply changes nothing.  Statements only. *)
From RN Require Import Base.Bytes Model.Edits Model.Fs Model.ApplyModel Proofs.ApplyP Proofs.ApplyFaultP.

(* The full statement — forall plan, tree, fault position: failure => tree unchanged — is FALSE of
   the faithful model of apply.rs; two machine-checked witnesses: *)
Theorem C04_refuted_second_file :
  exists k p t, r_ok (apply_core (one_fault k) p t) = false /\
                fs_eqb (user_view (r_fs (apply_core (one_fault k) p t))) (user_view t) = false.
Proof. exists 7%nat, w_plan, w_tree. pose proof refuted_second_file as [A [B _]]. split; assumption. Qed.

Theorem C04_refuted_stale :
  exists p t, r_ok (apply_core no_fault p t) = false /\
              fs_eqb (user_view (r_fs (apply_core no_fault p t))) (user_view t) = false.
Proof. exists w_plan, w_tree_stale. pose proof refuted_stale_second as [A [_ B]]. split; assumption. Qed.

(* What does hold for every plan, tree and fault position: *)
(* a command that fails before its first operation (occupied destination, stale or unreadable
   first file, fault at the very first call) leaves the tree exactly as it was *)
Theorem C04_fail_before_first_op_changes_nothing : forall inj p t,
  r_trace (apply_core inj p t) = [] -> r_ok (apply_core inj p t) = false -> r_fs (apply_core inj p t) = t.
Proof. exact fail_before_first_op_changes_nothing. Qed.

Theorem C04_occupied_destination_changes_nothing : forall inj p t r,
  In r (ap_renames p) -> occupied t r = true ->
  r_ok (apply_core inj p t) = false /\ r_fs (apply_core inj p t) = t /\ r_trace (apply_core inj p t) = [].
Proof. exact occupied_destination_refused. Qed.

Theorem C04_ok_iff_no_failure : forall inj p t,
  r_ok (apply_core inj p t) = true <-> r_fail (apply_core inj p t) = None.
Proof. exact ok_iff_no_failure. Qed.

Print Assumptions C04_refuted_second_file.
Print Assumptions C04_refuted_stale.
Print Assumptions C04_fail_before_first_op_changes_nothing.
Print Assumptions C04_occupied_destination_changes_nothing.
Print Assumptions C04_ok_iff_no_failure.
