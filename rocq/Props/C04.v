(* Props/C04.v — A failed apply changes nothing.  Statements only. *)
From RN Require Import Base.Bytes Model.Edits Model.Fs Model.ApplyModel Proofs.ApplyP Proofs.ApplyFaultP Proofs.RenameP Proofs.RenameP2.
From RN Require Proofs.Apply2P.

(* The full statement — forall plan, tree, fault position: failure => tree unchanged — is FALSE of
   the faithful model of apply.rs; two machine-checked witnesses: *)
Theorem C04_refuted_second_file :
  exists k p t, r_ok (apply_core (one_fault k) p t) = false /\
                fs_eqb (user_view (r_fs (apply_core (one_fault k) p t))) (user_view t) = false.
Proof. exists 7%nat, w_plan, w_tree. pose proof refuted_second_file as [A [B _]]. split; assumption. Qed.

Theorem C04_refuted_stale :
  exists p t, r_ok (apply_core no_fault p t) = false /\
              fs_eqb (user_view (r_fs (apply_core no_fault p t))) (user_view t) = false.
Proof. exists w_plan, w_tree_stale. pose proof refuted_stale_second as [A [_ B]]. split; assumption. Qed.

(* What does hold for every plan, tree and fault position: *)
(* a command that fails before its first operation (occupied destination, stale or unreadable
   first file, fault at the very first call) leaves the tree exactly as it was *)
Theorem C04_fail_before_first_op_changes_nothing : forall inj p t,
  r_trace (apply_core inj p t) = [] -> r_ok (apply_core inj p t) = false -> r_fs (apply_core inj p t) = t.
Proof. exact fail_before_first_op_changes_nothing. Qed.

Theorem C04_occupied_destination_changes_nothing : forall inj p t r,
  In r (ap_renames p) -> occupied t r = true ->
  r_ok (apply_core inj p t) = false /\ r_fs (apply_core inj p t) = t /\ r_trace (apply_core inj p t) = [].
Proof. exact occupied_destination_refused. Qed.

Theorem C04_ok_iff_no_failure : forall inj p t,
  r_ok (apply_core inj p t) = true <-> r_fail (apply_core inj p t) = None.
Proof. exact ok_iff_no_failure. Qed.

(* rename-only plans: under the conditions under which the fault-free rename stage is proved to succeed
   (shape, distinct sources, distinct destinations, fs_ok) and without case-only renames, whatever operation
   fails — as long as the rollback itself is not disturbed by a second fault — the failed apply leaves the
   tree EXACTLY as it found it (equality of trees, not only of lookups) *)
Theorem C04_failed_rename_plan_changes_nothing : forall inj p t,
  ap_hunks p = [] ->
  (forall r, In r (ap_renames p) -> shape r) ->
  NoDup (map ar_path (ap_renames p)) ->
  (forall r1 r2, In r1 (ap_renames p) -> In r2 (ap_renames p) -> ar_new r1 = ar_new r2 -> ar_path r1 = ar_path r2) ->
  fs_ok t (ap_renames p) ->
  (forall r, In r (ap_renames p) -> case_only (ar_path r) (ar_new r) = false) ->
  r_ok (apply_core inj p t) = false ->
  (forall n, (length (r_performed (apply_core inj p t)) < n)%nat -> inj n = false) ->
  r_fs (apply_core inj p t) = t.
Proof. exact Apply2P.failed_rename_plan_changes_nothing. Qed.

(* plans with content edits: a fault in the rename stage rolls the renames back to the tree the content
   stage left (the content edits themselves are the recorded finding content_edits_not_rolled_back) *)
Theorem C04_rename_fault_rolled_back_to_content_stage : forall inj p t s1,
  first_conflict t (ap_renames p) = None ->
  first_unreadable t (edits_by_file (ap_hunks p)) = None ->
  content_stage inj (edits_by_file (ap_hunks p)) {| s_fs := t; s_n := 0; s_trace := [] |} = inl s1 ->
  r_ok (apply_core inj p t) = false ->
  (forall a b, In (a, b) (stage_steps (sort_renames (ap_renames p)) []) -> case_only a b = false) ->
  Apply2P.steps_free (stage_steps (sort_renames (ap_renames p)) []) (s_fs s1) ->
  (forall n, (s_n s1 + length (r_performed (apply_core inj p t)) < n)%nat -> inj n = false) ->
  r_fs (apply_core inj p t) = s_fs s1.
Proof. exact Apply2P.apply_rename_fault_rolled_back. Qed.

(* the hypotheses are necessary: Apply2P.RollbackExamples.second_fault_defeats_rollback (a second fault during
   rollback) and case_only_probe_left_behind (a fault at the unlink of the case-only probe) *)

(* a planned file that cannot be read - missing, not a regular file, not valid UTF-8 (the scanner plans text in legacy encodings,
   apply reads files as strings) - fails the apply before the first operation, whatever else the plan holds *)
Theorem C04_unreadable_file_changes_nothing : forall inj p t f,
  first_conflict t (ap_renames p) = None ->
  first_unreadable t (edits_by_file (ap_hunks p)) = Some f ->
  r_ok (apply_core inj p t) = false /\ r_fail (apply_core inj p t) = Some (FailRead f) /\
  r_fs (apply_core inj p t) = t /\ r_trace (apply_core inj p t) = [].
Proof. exact unreadable_file_changes_nothing. Qed.

Theorem C04_unreadable_file_is_found : forall t files f es,
  In (f, es) files -> readable t f = false -> exists g, first_unreadable t files = Some g.
Proof. exact first_unreadable_some. Qed.

Print Assumptions C04_unreadable_file_changes_nothing.
Print Assumptions C04_unreadable_file_is_found.
Print Assumptions C04_refuted_second_file.
Print Assumptions C04_refuted_stale.
Print Assumptions C04_fail_before_first_op_changes_nothing.
Print Assumptions C04_occupied_destination_changes_nothing.
Print Assumptions C04_ok_iff_no_failure.
Print Assumptions C04_failed_rename_plan_changes_nothing.
Print Assumptions C04_rename_fault_rolled_back_to_content_stage.
