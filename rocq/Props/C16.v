(* Props/C16.v — No input makes renamify crash: the anchored panic sites.  Statements only. *)
From RN Require Import Base.Bytes Model.Edits Model.CaseModel Model.Matcher Proofs.EditsP Proofs.HunksP.
From RN Require Proofs.CaseP Proofs.Apply2P.

(* apply: a well-formed plan never reaches a panic ... *)
Theorem C16_wf_plan_no_panic : forall orig es,
  head_ok orig = true -> wf_edits orig es = true -> apply_edits_rev orig es <> Panic.
Proof. intros orig es H1 H2. rewrite apply_edits_rev_spec by assumption. discriminate. Qed.

(* ... a stale edit anywhere in the plan (offsets beyond the file, inside a character, other text) is never
   accepted: the content check reports a mismatch instead of slicing *)
Theorem C16_stale_edit_is_rejected : forall orig es e,
  In e es -> edit_matches orig e = false -> forall r, apply_edits_rev orig es <> Ok r.
Proof.
  intros orig es e Hin H. apply apply_edits_rev_mismatch. apply existsb_exists. exists e. split; [exact Hin|].
  rewrite H. reflexivity.
Qed.

(* the tokenizer's fuel never runs out: parse_to_tokens is total on every byte string and table *)
Theorem C16_tokenizer_total : forall acr s, parse_to_tokens acr s <> None.
Proof. exact CaseP.tokens_total. Qed.

(* the literal scan only reports spans inside the content *)
Theorem C16_spans_in_range : forall vs c a b v, In (a, b, v) (find_iter vs c) -> (a <= b)%nat /\ (b <= length c)%nat.
Proof.
  intros vs c a b v H. destruct (find_iter_sound vs c a b v H) as (E & L & _). split; [lia | exact L].
Qed.

(* the whole of apply_content_edits_with_content (sort, overlap pre-check, loop): EVERY edit list — any order,
   duplicated, overlapping, offsets beyond the file or inside a character, any recorded texts — ends in Ok or
   in the content-mismatch error, never in a panic.  The only hypothesis is one every Rust String meets:
   the replacement texts do not begin with a UTF-8 continuation byte. *)
Theorem C16_edits_never_panic : forall orig es,
  forallb (fun e => head_ok (e_new e)) es = true -> apply_edits_rev orig es <> Panic.
Proof. exact Apply2P.edits_never_panic. Qed.

Theorem C16_edits_mismatch_or_spec : forall orig es,
  head_ok orig = true -> forallb (fun e => head_ok (e_new e)) es = true ->
  apply_edits_rev orig es = Mismatch \/
  (wf_edits orig (sort_edits es) = true /\ apply_edits_rev orig es = Ok (spec_splice orig (sort_edits es))).
Proof. exact Apply2P.edits_mismatch_or_spec. Qed.

(* the pre-check is what protects the loop: on its own the loop panics on out-of-order edits
   (this was the behaviour of apply before the fix recorded in known_findings.json) *)
Theorem C16_loop_alone_can_panic : exists orig es,
  forallb (fun e => head_ok (e_new e)) es = true /\ apply_edits_pos orig es = Panic /\
  apply_edits_rev orig es = Ok [195; 169; 195; 169; 120]%N.
Proof. exact Apply2P.unordered_edits_panic_ex. Qed.

Print Assumptions C16_wf_plan_no_panic.
Print Assumptions C16_stale_edit_is_rejected.
Print Assumptions C16_tokenizer_total.
Print Assumptions C16_spans_in_range.
Print Assumptions C16_edits_never_panic.
Print Assumptions C16_edits_mismatch_or_spec.
Print Assumptions C16_loop_alone_can_panic.
