(* Props/C16.v — No input makes renamify crash: the anchored panic sites.  Statements only. *)
From RN Require Import Base.Bytes Model.Edits Model.CaseModel Model.Matcher Proofs.EditsP Proofs.HunksP.
From RN Require Proofs.CaseP.

(* apply: a well-formed plan never reaches a panic ... *)
Theorem C16_wf_plan_no_panic : forall orig es,
  head_ok orig = true -> wf_edits orig es = true -> apply_edits_rev orig es <> Panic.
Proof. intros orig es H1 H2. rewrite apply_edits_rev_spec by assumption. discriminate. Qed.

(* ... and the first thing a stale edit meets (offsets beyond the file, inside a character, other text) is
   the content check, which reports a mismatch instead of slicing *)
Theorem C16_stale_last_edit_is_mismatch : forall orig es e,
  edit_matches orig e = false -> apply_edits_rev orig (es ++ [e]) = Mismatch.
Proof.
  intros orig es e H. unfold apply_edits_rev. rewrite rev_app_distr. cbn [rev app apply_rev_aux].
  unfold edit_matches in H. destruct (str_slice orig (e_start e) (e_stop e)); [rewrite H|]; reflexivity.
Qed.

(* the tokenizer's fuel never runs out: parse_to_tokens is total on every byte string and table *)
Theorem C16_tokenizer_total : forall acr s, parse_to_tokens acr s <> None.
Proof. exact CaseP.tokens_total. Qed.

(* the literal scan only reports spans inside the content *)
Theorem C16_spans_in_range : forall vs c a b v, In (a, b, v) (find_iter vs c) -> (a <= b)%nat /\ (b <= length c)%nat.
Proof.
  intros vs c a b v H. destruct (find_iter_sound vs c a b v H) as (E & L & _). split; [lia | exact L].
Qed.

Print Assumptions C16_wf_plan_no_panic.
Print Assumptions C16_stale_last_edit_is_mismatch.
Print Assumptions C16_tokenizer_total.
Print Assumptions C16_spans_in_range.
