(* Props/C03.v — Every plan is internally consistent with the files it describes.  Statements only. *)
From RN Require Import Model.ApplyModel Model.SimplePlan Proofs.SimplePlanP Model.SimplePlanRx Proofs.SimplePlanRxP.   (* first: Model/Enhanced.v's e_start etc. must win below *)
From RN Require Import Base.Bytes Model.StyleDef Model.Edits Model.Matcher Model.Hunks Model.Compound Model.Enhanced.
From RN Require Import Proofs.EditsP Proofs.HunksP Proofs.EnhancedP1 Proofs.EnhancedP2.

(* the literal scan of pattern.rs: every reported span is a real occurrence of one of the variants ... *)
Theorem C03_find_iter_sound : forall vs c a b v, In (a, b, v) (find_iter vs c) ->
  b = (a + length v)%nat /\ (b <= length c)%nat /\ firstn (b - a) (skipn a c) = v /\ In v vs /\ v <> [].
Proof. exact find_iter_sound. Qed.

(* ... spans come in increasing order and never overlap ... *)
Theorem C03_find_iter_sorted_disjoint : forall vs c, spans_ok 0 (find_iter vs c).
Proof. exact find_iter_sorted_disjoint. Qed.

(* ... and find_matches keeps exactly the boundary ones and records line and column of the offset *)
Theorem C03_find_matches_sound : forall vs c m, In m (find_matches vs c) ->
  In (m_start m, m_end m, m_text m) (find_iter vs c) /\ is_boundary c (m_start m) (m_end m) = true /\
  m_line m = line_of c (m_start m) /\ m_col m = col_of c (m_start m).
Proof. exact find_matches_sound. Qed.

(* the line start used for the column is at or before the offset, sits at 0 or right after a newline, and
   no newline lies between it and the offset *)
Theorem C03_line_start_spec : forall c off, (off <= length c)%nat ->
  (line_start c off <= off)%nat /\
  (line_start c off = 0%nat \/ nth_error c (line_start c off - 1) = Some 10%N) /\
  count_byte 10 (firstn (off - line_start c off) (skipn (line_start c off) c)) = 0%nat.
Proof. exact line_start_spec. Qed.

(* the hunk the planners build for a span (line, byte and character column, before/after context, with
   or without line terminator) is consistent with the file: any content, any span *)
Theorem C03_mk_hunk_ok : forall wt c start stop repl,
  (start < stop)%nat -> (stop <= length c)%nat ->
  char_boundary c start = true -> char_boundary c stop = true ->
  existsb (N.eqb 10) (firstn (stop - start) (skipn start c)) = false ->
  hunk_ok wt c (mk_hunk wt c start stop repl) = true.
Proof. exact mk_hunk_ok. Qed.

(* C03 -> C02: a plan that is consistent with a file is a well-formed edit list, hence apply performs
   exactly the reference substitution *)
Theorem C03_consistent_applies : forall wt c hs,
  head_ok c = true -> file_consistent wt c hs = true -> forallb (fun h => head_ok (fh_replace h)) hs = true ->
  apply_edits_rev c (map edit_of_hunk hs) = Ok (spec_splice c (map edit_of_hunk hs)).
Proof. exact consistent_applies. Qed.

(* --- the case-aware scanner: compound_scanner.rs (Model/Enhanced.v: the identifier extractor regex as a hand scanner
   with its backtracking and dot splitting, the exact pass, candidate-line scoping, the compound pass, the stable sort by
   (line, column) and the whole overlap-resolution loop; tied differentially to find_enhanced_matches) ---------------- *)

(* every identifier the extractor reports is the slice it names; identifiers are ordered and pairwise disjoint *)
Theorem C03_identifiers_sound : forall styles c,
  (forall s e id, In (s, e, id) (find_all styles c) ->
     (s < e)%nat /\ (e <= length c)%nat /\ id = firstn (e - s) (skipn s c)) /\
  spans_ok 0 (find_all styles c).
Proof. exact identifiers_sound. Qed.

(* the matches the scanner hands to generate_hunks are ordered and pairwise non-overlapping: for EVERY content, term,
   variant table, style list and set of additional candidate lines (start < end unless table and file are both empty) *)
Theorem C03_enhanced_sorted_disjoint : forall c search replace keys styles extra,
  degenerate keys c = false -> schain 0 (find_enhanced_matches c search replace keys styles extra).
Proof. exact enhanced_sorted_disjoint_strict. Qed.

Theorem C03_enhanced_sorted_disjoint_all : forall c search replace keys styles extra,
  chain 0 (find_enhanced_matches c search replace keys styles extra).
Proof. exact enhanced_sorted_disjoint. Qed.

(* each lies inside the file and carries the line and column of its offset *)
Theorem C03_enhanced_within_content : forall c search replace keys styles extra m, degenerate keys c = false ->
  In m (find_enhanced_matches c search replace keys styles extra) ->
  (e_start m < e_end m)%nat /\ (e_end m <= length c)%nat /\
  e_line m = line_of c (e_start m) /\ e_col m = col_of c (e_start m).
Proof. exact enhanced_within_content. Qed.

(* and each is either an exact match of the literal scan (boundary test passed) or an identifier span reported by the
   extractor on which the compound matcher returned a result *)
Theorem C03_enhanced_classified : forall c search replace keys styles extra m,
  In m (find_enhanced_matches c search replace keys styles extra) ->
  exact_kind keys c m \/ compound_kind styles c search replace m \/
  (c = [] /\ degenerate keys c = true /\ m = empty_match).
Proof. exact enhanced_candidates_classified. Qed.

(* the one degenerate input, machine-checked and replayed on the real function: a term without letters or digits and an
   empty file give one empty match 0..0 (build_pattern compiles `$^`); generate_hunks drops it (no variant) *)
Example C03_enhanced_empty_match : find_enhanced_matches [] [45%N] [120%N] [] [Snake; Kebab] None = [empty_match].
Proof. exact enhanced_empty_match_witness. Qed.

Example C03_consistent_example :
  file_consistent true [120; 32; 102; 111; 111; 10]%N
    [ mk_hunk true [120; 32; 102; 111; 111; 10]%N 2 5 [98; 97; 114]%N ] = true.
Proof. vm_compute. reflexivity. Qed.

Print Assumptions C03_find_iter_sound.
Print Assumptions C03_find_iter_sorted_disjoint.
Print Assumptions C03_find_matches_sound.
Print Assumptions C03_line_start_spec.
Print Assumptions C03_mk_hunk_ok.
Print Assumptions C03_consistent_applies.
Print Assumptions C03_identifiers_sound.
Print Assumptions C03_enhanced_sorted_disjoint.
Print Assumptions C03_enhanced_sorted_disjoint_all.
Print Assumptions C03_enhanced_within_content.
Print Assumptions C03_enhanced_classified.
Print Assumptions C03_enhanced_empty_match.

(* ---- THE SECOND PLANNER: scanner.rs::create_simple_plan / process_file_content behind `renamify replace`, literal mode
   (Model/SimplePlan.v, tied hunk by hunk to the real planner by lib/simpleplan_difftest.py).  excl: the exclude-lines predicate
   (an oracle); bat: -uuu.  For EVERY file content, pattern, replacement and predicate: ---- *)

(* every hunk is what the plan says it is: the recorded text is the pattern and the file's bytes at [start, end), the span lies in
   the file, line / byte column / char column are those of start, line_before is the line the match sits on (without its
   terminator), line_after is that line with that one match replaced, the line is not excluded *)
Theorem C03_simple_plan_hunks : forall excl p repl bat c h, p <> [] ->
  In h (fst (SimplePlan.process_file_content excl p repl bat c)) -> hunk_spec excl p repl c h.
Proof. exact simple_plan_now_hunks. Qed.

(* hunks of a file are sorted by start and pairwise disjoint (overlapping occurrences are not reported: aa in aaa is one hunk) *)
Theorem C03_simple_plan_sorted : forall excl p repl bat c,
  sorted_disjoint 0 (fst (SimplePlan.process_file_content excl p repl bat c)) = true.
Proof. exact simple_plan_now_sorted. Qed.

(* the plan is consistent with the file in the sense of C03_consistent_applies, and the stats count what the plan holds *)
Theorem C03_simple_plan_consistent : forall excl p repl bat c, p <> [] -> utf8_ok p = true ->
  file_consistent false c (fst (SimplePlan.process_file_content excl p repl bat c)) = true.
Proof. exact simple_plan_now_consistent. Qed.

Theorem C03_simple_plan_stats : forall excl p repl bat files,
  (p = [] -> create_simple_plan excl p repl bat files = None) /\
  (p <> [] -> exists per_file st,
     create_simple_plan excl p repl bat files = Some (per_file, st) /\
     per_file = map (fun c => fst (SimplePlan.process_file_content excl p repl bat c)) files /\
     st_files_scanned st = length files /\
     total_ok (st_total st) per_file = true /\
     files_with_ok (st_files_with st) per_file = true /\
     st_by_variant st = [(p, st_total st)]).
Proof. exact create_simple_plan_spec. Qed.

(* applying the plan rewrites exactly the reported occurrences (the link to C02) *)
Theorem C03_simple_plan_applies : forall excl p repl bat c,
  p <> [] -> utf8_ok p = true -> head_ok repl = true -> head_ok c = true ->
  wf_edits c (map edit_of_hunk (fst (SimplePlan.process_file_content excl p repl bat c))) = true /\
  apply_edits_rev c (map edit_of_hunk (fst (SimplePlan.process_file_content excl p repl bat c)))
    = Ok (spec_splice c (map edit_of_hunk (fst (SimplePlan.process_file_content excl p repl bat c)))).
Proof. exact simple_plan_now_applies. Qed.

(* THE CODE AS IT WAS (String::from_utf8_lossy, process_file_content_lossy) violated the first clause on files that are not valid
   UTF-8: a span outside the file, and a recorded text that is not at its offsets - found while proving, reproduced on the real
   planner, repaired by repo fix 0904d0d (such a file is now left out) *)
Theorem C03_simple_plan_lossy_refuted : exists c p repl h,
    p <> [] /\ utf8_ok p = true /\ In h (fst (process_file_content_lossy SimpleWitness.noex p repl false c)) /\
    (length c < fh_end h)%nat.
Proof. exact SimpleWitness.simple_plan_span_within_file_refuted. Qed.

Print Assumptions C03_simple_plan_hunks.
Print Assumptions C03_simple_plan_sorted.
Print Assumptions C03_simple_plan_consistent.
Print Assumptions C03_simple_plan_stats.
Print Assumptions C03_simple_plan_applies.
Print Assumptions C03_simple_plan_lossy_refuted.

(* ---- REGEX MODE of the same planner (Model/SimplePlanRx.v; the default of `renamify replace`).  The regex crate is an oracle,
   rx_caps: what captures_iter yields on one line; its contract rx_caps_ok is what the crate documents (matches within the line,
   increasing and non-overlapping, on character boundaries, groups likewise; EMPTY matches allowed).  The replacement text is the
   code's own loop of `$i` substitutions (expand), which is not Captures::expand - restated, not assumed.  For every file: ---- *)
Theorem C03_regex_plan_hunks : forall excl rx_caps p repl, rx_caps_ok rx_caps -> forall bat c rh,
  In rh (fst (process_file_content_regex excl rx_caps p repl bat c)) ->
  rx_hunk_spec excl (rx_find_of_caps rx_caps repl) p c rh /\
  (exists gs,
     In (fh_col (rx_fh rh), (fh_col (rx_fh rh) + length (fh_content (rx_fh rh)))%nat, gs)
        (rx_caps (strip_eol (line_at c (fh_start (rx_fh rh))))) /\
     fh_replace (rx_fh rh) = SimplePlanRx.expand (strip_eol (line_at c (fh_start (rx_fh rh)))) gs repl).
Proof. exact regex_plan_hunks. Qed.

Theorem C03_regex_plan_sorted : forall excl rx_caps p repl, rx_caps_ok rx_caps -> forall bat c,
  sorted_disjoint 0 (map rx_fh (fst (process_file_content_regex excl rx_caps p repl bat c))) = true.
Proof. exact regex_plan_sorted. Qed.

(* applying the plan yields the reference substitution, empty matches included *)
Theorem C03_regex_plan_applies : forall excl rx_caps p repl, rx_caps_ok rx_caps -> forall bat c,
  utf8_ok repl = true -> head_ok c = true ->
  wf_edits c (map edit_of_hunk (map rx_fh (fst (process_file_content_regex excl rx_caps p repl bat c)))) = true /\
  apply_edits_rev c (map edit_of_hunk (map rx_fh (fst (process_file_content_regex excl rx_caps p repl bat c))))
    = Ok (spec_splice c (map edit_of_hunk (map rx_fh (fst (process_file_content_regex excl rx_caps p repl bat c))))).
Proof. exact regex_plan_applies. Qed.

(* file_consistent (which demands non-empty hunks) - for a regex that never matches the empty string; `x*` yields empty hunks,
   which the property's clauses allow (empty text is at its offsets) and the model's predicate does not: RxWitness *)
Theorem C03_regex_plan_consistent : forall excl rx_caps p repl, rx_caps_ok rx_caps -> forall bat c,
  rx_caps_nonempty rx_caps ->
  file_consistent false c (map rx_fh (fst (process_file_content_regex excl rx_caps p repl bat c))) = true.
Proof. exact regex_plan_consistent. Qed.

Print Assumptions C03_regex_plan_hunks.
Print Assumptions C03_regex_plan_sorted.
Print Assumptions C03_regex_plan_applies.
Print Assumptions C03_regex_plan_consistent.
