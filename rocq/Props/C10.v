(* Props/C10.v — History is a consistent append-only record under any operation sequence.
   Statements only.  Command sequences of ANY length, at ANY seconds (repeated seconds included). *)
From RN Require Import Model.History Proofs.HistoryP.

(* every reachable state: ids unique, the tree is exactly what the live history entries imply, every
   revert entry points at an operation entry *)
Theorem C10_reachable_inv : forall cs, Inv (fst (run h_init cs)).
Proof. exact reachable_inv. Qed.

(* no original operation is ever in the tree twice (undo / redo / redo ... cannot stack) *)
Theorem C10_no_operation_applied_twice : forall cs,
  NoDup (map root (live_ids (h_hist (fst (run h_init cs))))).
Proof. exact reachable_live_roots_nodup. Qed.

(* append-only: earlier entries are never lost, altered or reordered *)
Theorem C10_append_only : forall s c sec,
  h_hist (fst (step s c sec)) = h_hist s \/ exists e, h_hist (fst (step s c sec)) = h_hist s ++ [e].
Proof. exact step_append_only. Qed.
Theorem C10_run_prefix : forall cs s, exists l, h_hist (fst (run s cs)) = h_hist s ++ l.
Proof. exact run_prefix. Qed.

(* success adds exactly one entry with a fresh id; any other outcome leaves tree and history unchanged *)
Theorem C10_step_succeeded : forall s c sec s', step s c sec = (s', Succeeded) ->
  exists e, h_hist s' = h_hist s ++ [e] /\ has_id (h_hist s) (e_id e) = false.
Proof. exact step_succeeded. Qed.
Theorem C10_not_succeeded_unchanged : forall s c sec s' o,
  step s c sec = (s', o) -> o <> Succeeded -> s' = s.
Proof. exact step_not_succeeded_unchanged. Qed.

(* an operation can be undone only while it is applied, redone only while it is undone *)
Theorem C10_undo_only_when_live : forall s r sec s', Inv s -> step s (CUndo r) sec = (s', Succeeded) ->
  exists id, resolve (h_hist s) true r = Some id /\ In id (live_ids (h_hist s)) /\
             h_tree s' = remove_one (params_of id) (h_tree s) /\ ~ In id (live_ids (h_hist s')).
Proof. exact undo_only_when_live. Qed.
Theorem C10_redo_only_when_undone : forall s r sec s', Inv s -> step s (CRedo r) sec = (s', Succeeded) ->
  exists id, resolve (h_hist s) false r = Some id /\ reverted (h_hist s) id = true /\
             redone (h_hist s) id = false /\ h_tree s' = params_of id :: h_tree s.
Proof. exact redo_only_when_undone. Qed.

(* what the two repairs changed: under the former behaviour the same statements are false *)
Theorem C10_old_double_redo_breaks : exists cs, ~ SInv (fst (run_old h_init cs)).
Proof. exact old_double_redo_breaks_sinv. Qed.
Theorem C10_old_same_second_mutates_on_reject :
  exists s c sec s', step_old s c sec = (s', Rejected) /\ s' <> s.
Proof. exact old_same_second_mutates_on_reject. Qed.

Print Assumptions C10_reachable_inv.
Print Assumptions C10_no_operation_applied_twice.
Print Assumptions C10_append_only.
Print Assumptions C10_run_prefix.
Print Assumptions C10_step_succeeded.
Print Assumptions C10_not_succeeded_unchanged.
Print Assumptions C10_undo_only_when_live.
Print Assumptions C10_redo_only_when_undone.
Print Assumptions C10_old_double_redo_breaks.
Print Assumptions C10_old_same_second_mutates_on_reject.
