(* Base/Str.v — [bs "text"] : bytes, for writing ASCII literals in models. *)
From Coq Require Import String Ascii.
From RN Require Import Base.Bytes.

Fixpoint bs (s : string) : bytes :=
  match s with
  | EmptyString => []
  | String a s' => N_of_ascii a :: bs s'
  end.
Arguments bs _%string.
