(* Base/Bytes.v — byte strings as [list N], ASCII character classes, small list utilities.
   Definitions and elementary lemmas only; stdlib only. *)
From Coq Require Export List NArith Bool Lia Arith.
Export ListNotations.
Open Scope N_scope.

Arguments N.add : simpl never.
Arguments N.sub : simpl never.
Arguments N.eqb : simpl never.
Arguments N.leb : simpl never.
Arguments N.ltb : simpl never.

Definition byte := N.
Definition bytes := list N.

Definition is_upper (c : N) : bool := (65 <=? c) && (c <=? 90).
Definition is_lower (c : N) : bool := (97 <=? c) && (c <=? 122).
Definition is_digit (c : N) : bool := (48 <=? c) && (c <=? 57).
Definition is_alpha (c : N) : bool := is_upper c || is_lower c.
Definition is_alnum (c : N) : bool := is_alpha c || is_digit c.
Definition to_lower (c : N) : N := if is_upper c then c + 32 else c.
Definition to_upper (c : N) : N := if is_lower c then c - 32 else c.
Definition is_ascii (c : N) : bool := c <? 128.

Fixpoint beq (a b : bytes) : bool :=
  match a, b with
  | [], [] => true
  | x :: a', y :: b' => (x =? y) && beq a' b'
  | _, _ => false
  end.

Lemma beq_refl a : beq a a = true.
Proof. induction a as [|x a IH]; cbn [beq]; [reflexivity|]. rewrite N.eqb_refl, IH. reflexivity. Qed.

Lemma beq_eq a b : beq a b = true <-> a = b.
Proof.
  revert b; induction a as [|x a IH]; intros [|y b]; cbn [beq]; split; intro H;
    try reflexivity; try discriminate.
  - apply andb_true_iff in H as [H1 H2]. apply N.eqb_eq in H1. apply IH in H2. congruence.
  - inversion H; subst. rewrite N.eqb_refl. cbn. apply IH. reflexivity.
Qed.

Lemma beq_neq a b : beq a b = false <-> a <> b.
Proof.
  split; intro H.
  - intro E. apply beq_eq in E. congruence.
  - destruct (beq a b) eqn:E; [|reflexivity]. apply beq_eq in E. contradiction.
Qed.

Fixpoint is_prefix (p s : bytes) : bool :=
  match p, s with
  | [], _ => true
  | x :: p', y :: s' => (x =? y) && is_prefix p' s'
  | _ :: _, [] => false
  end.

Lemma is_prefix_app p s : is_prefix p (p ++ s) = true.
Proof. induction p as [|x p IH]; cbn; [reflexivity|]. rewrite N.eqb_refl, IH. reflexivity. Qed.

Lemma is_prefix_spec p s : is_prefix p s = true <-> exists r, s = p ++ r.
Proof.
  revert s; induction p as [|x p IH]; intros s; cbn [is_prefix].
  - split; [intros _; exists s; reflexivity | reflexivity].
  - destruct s as [|y s]; [split; [discriminate | intros [r H]; discriminate]|].
    split.
    + intro H. apply andb_true_iff in H as [H1 H2]. apply N.eqb_eq in H1. subst y.
      apply IH in H2 as [r ->]. exists r. reflexivity.
    + intros [r H]. inversion H; subst. rewrite N.eqb_refl. cbn. apply IH. exists r. reflexivity.
Qed.

(* [slice s a b] = bytes a..b of s, None when out of range (the Rust would panic) *)
Definition slice (s : bytes) (a b : nat) : option bytes :=
  if (Nat.leb a b && Nat.leb b (length s))%bool then Some (firstn (b - a) (skipn a s)) else None.

Fixpoint join (sep : bytes) (ws : list bytes) : bytes :=
  match ws with
  | [] => []
  | [w] => w
  | w :: ws' => w ++ sep ++ join sep ws'
  end.

Fixpoint count_byte (c : N) (s : bytes) : nat :=
  match s with [] => O | x :: s' => ((if N.eqb x c then 1 else 0) + count_byte c s')%nat end.

Definition NL : N := 10.
Definition CR : N := 13.

Lemma skipn_skipn {A} (n m : nat) (l : list A) : skipn n (skipn m l) = skipn (n + m) l.
Proof.
  revert l; induction m as [|m IH]; intros l.
  - rewrite Nat.add_0_r. reflexivity.
  - destruct l as [|x l]; [rewrite !skipn_nil; reflexivity|].
    rewrite Nat.add_succ_r. cbn [skipn]. apply IH.
Qed.

Lemma existsb_rev {A} (f : A -> bool) (l : list A) : existsb f (rev l) = existsb f l.
Proof.
  induction l as [|x l IH]; [reflexivity|]. cbn [rev existsb].
  rewrite existsb_app. cbn [existsb]. rewrite IH, orb_false_r. apply orb_comm.
Qed.

(* byte-wise lexicographic order (String / OsStr Ord) *)
Fixpoint bytes_ltb (a b : bytes) : bool :=
  match a, b with
  | [], [] => false
  | [], _ :: _ => true
  | _ :: _, [] => false
  | x :: a', y :: b' => if x <? y then true else if y <? x then false else bytes_ltb a' b'
  end.
