#!/usr/bin/env python3
"""Differential test: compound_scanner.rs (IdentifierExtractor::find_all and find_enhanced_matches,
real Rust via rn-harness) against RN.Model.Enhanced (Gallina, vm_compute).

usage: difftest.py [--seed N] [--ident N] [--enh N] [--batch N] [--keep]
Every case is run through both sides; every field of every result is compared inside Coq
(the expectation = what the Rust returned is embedded in the generated cases_*.v; Coq prints the
list of cases whose model output differs, with the model output).
Exit status 0 iff there is no disagreement and no Rust panic."""
import argparse, collections, json, os, random, re, subprocess, sys, time

HERE = os.path.dirname(os.path.abspath(__file__))
HARNESS = os.path.join(HERE, "rn-harness")
ROCQ = os.path.join(HERE, "rocq")
WORK = os.path.join(HERE, "difftest_work")

ALL_STYLES = ["Snake", "Kebab", "Camel", "Pascal", "ScreamingSnake", "Title", "Train",
              "ScreamingTrain", "Dot", "LowerFlat", "UpperFlat", "Sentence", "LowerSentence",
              "UpperSentence"]
CLI_DEFAULT = ["Snake", "Kebab", "Camel", "Pascal", "ScreamingSnake", "Train", "ScreamingTrain",
               "Title", "Sentence", "LowerSentence", "UpperSentence"]
LIB_DEFAULT = ["Snake", "Kebab", "Camel", "Pascal", "ScreamingSnake", "Train"]


def cap(w):
    return w[:1].upper() + w[1:]


def render(style, ws):
    if not ws:
        return ""
    if style == "Snake":
        return "_".join(w.lower() for w in ws)
    if style == "Kebab":
        return "-".join(w.lower() for w in ws)
    if style == "Camel":
        return ws[0].lower() + "".join(cap(w.lower()) for w in ws[1:])
    if style == "Pascal":
        return "".join(cap(w.lower()) for w in ws)
    if style == "ScreamingSnake":
        return "_".join(w.upper() for w in ws)
    if style == "Title":
        return " ".join(cap(w.lower()) for w in ws)
    if style == "Train":
        return "-".join(cap(w.lower()) for w in ws)
    if style == "ScreamingTrain":
        return "-".join(w.upper() for w in ws)
    if style == "Dot":
        return ".".join(w.lower() for w in ws)
    if style == "LowerFlat":
        return "".join(w.lower() for w in ws)
    if style == "UpperFlat":
        return "".join(w.upper() for w in ws)
    if style == "Sentence":
        return " ".join([cap(ws[0].lower())] + [w.lower() for w in ws[1:]])
    if style == "LowerSentence":
        return " ".join(w.lower() for w in ws)
    if style == "UpperSentence":
        return " ".join(w.upper() for w in ws)
    raise ValueError(style)


WORDS = ["get", "set", "x", "y", "item", "config", "data", "the", "thing", "here", "my", "is", "a",
         "old", "name", "foo", "bar", "tool", "user", "id", "api", "v2", "2"]
TERMS = [(["old", "name"], ["new", "name"]), (["foo", "bar"], ["qux"]), (["user", "id"], ["account", "key"]),
         (["foo"], ["bar", "baz"]), (["tool"], ["kit"]), (["get", "user", "name"], ["fetch", "login"]),
         (["old", "name"], ["big", "new", "thing"]), (["api"], ["rpc"]), (["item", "2"], ["entry", "3"]),
         (["foo", "foo"], ["bar", "baz"])]     # repeated word: partial exact/compound overlaps become possible
SEARCH_STYLES = ["Snake", "Snake", "Kebab", "Camel", "Pascal", "Title", "LowerSentence", "Dot",
                 "ScreamingSnake", "Train"]
JOINTS = [" ", " ", " ", "  ", "\t", ", ", "(", ")", "::", " = ", ".", "..", "-", "_", "", "/", ";", ":",
          "->", " - ", "'", '"', "[", "]", "<", ">", "+", "2", "s"]
EOLS = ["\n", "\n", "\n", "\r\n", "\n\n", "\n\r\n"]


class Gen:
    def __init__(self, seed):
        self.rng = random.Random(seed)

    def words(self, n):
        return [self.rng.choice(WORDS) for _ in range(n)]

    def fragment(self, term):
        """one piece of text built around the term; returns (text, tag)"""
        rng = self.rng
        kind = rng.choice(["exact", "exact", "compound", "compound", "compound", "dotted", "range",
                           "title", "sentence", "near_miss", "overlap", "trailing", "digits", "plain",
                           "plain", "mixed_sep", "prefixed", "plural"])
        st = rng.choice(ALL_STYLES)
        if kind == "exact":
            return render(st, term), kind
        if kind == "compound":
            pre = self.words(rng.randrange(0, 3)); post = self.words(rng.randrange(0, 3))
            if not pre and not post:
                post = ["x"]
            return render(st, pre + term + post), kind
        if kind == "dotted":
            parts = []
            for _ in range(rng.randrange(2, 5)):
                c = rng.random()
                if c < 0.4:
                    parts.append(render(rng.choice(["Snake", "Camel", "Pascal", "Kebab", "ScreamingSnake"]), term))
                elif c < 0.6:
                    parts.append(render(rng.choice(["Snake", "Camel", "Pascal", "Kebab"]),
                                        self.words(1) + term + self.words(rng.randrange(0, 2))))
                else:
                    parts.append(rng.choice(WORDS))
            return ".".join(parts), kind
        if kind == "range":
            a = render(rng.choice(["Snake", "Camel", "Kebab"]), term + self.words(rng.randrange(0, 2)))
            b = rng.choice([render("Snake", term), rng.choice(WORDS), "10", render("Camel", self.words(1) + term)])
            return a + rng.choice(["..", "...", "..=", ".-.", "._."]) + b, kind
        if kind == "title":
            ws = self.words(rng.randrange(0, 3)) + term + self.words(rng.randrange(0, 3))
            sep = rng.choice([" ", " ", "  ", "\t", "\n", " \n "])
            return sep.join(cap(w) for w in ws), kind
        if kind == "sentence":
            ws = self.words(rng.randrange(0, 3)) + term + self.words(rng.randrange(0, 3))
            out = " ".join(ws)
            return (cap(out) if rng.random() < 0.5 else out) + rng.choice(["", ".", "!", ","]), kind
        if kind == "near_miss":
            t2 = list(term)
            how = rng.choice(["glue_front", "glue_back", "concat", "swap", "drop"])
            if how == "glue_front":
                t2[0] = rng.choice("xyz") + t2[0]
            elif how == "glue_back":
                t2[-1] = t2[-1] + rng.choice("nrt")
            elif how == "concat":
                t2 = ["".join(t2)]
            elif how == "swap":
                t2 = list(reversed(t2)) if len(t2) > 1 else [t2[0][::-1]]
            else:
                t2 = t2[:-1] if len(t2) > 1 else [t2[0][:-1] or "q"]
            return render(st, self.words(rng.randrange(0, 2)) + t2 + self.words(rng.randrange(0, 2))), kind
        if kind == "overlap":
            # exact and compound candidates that touch or overlap
            s1 = rng.choice(["Snake", "Camel", "Pascal", "Kebab", "Title", "LowerSentence", "Sentence",
                             "ScreamingSnake", "Train", "UpperSentence"])
            s2 = rng.choice(["Snake", "Camel", "Pascal", "Kebab", "Title", "ScreamingSnake"])
            a = render(s1, term)
            b = render(s2, term + self.words(rng.randrange(0, 2)))
            glue = rng.choice([" ", "_", "-", ".", "", " ", " "])
            forms = [a + glue + b, b + glue + a,
                     render("LowerSentence", term[:1]) + " " + render("Snake", term[1:] + ["x"]) if len(term) > 1 else a + " " + b,
                     render("Title", term) + " " + render("Train", term).replace("-", "_"),
                     render("Title", term + self.words(1)) + glue + render("Snake", term),
                     render("LowerSentence", self.words(1) + term) + "_" + rng.choice(WORDS),
                     rng.choice(WORDS) + "_" + render("LowerSentence", term) + "_" + rng.choice(WORDS),
                     rng.choice(WORDS) + "-" + render("Title", term) + "-" + rng.choice(WORDS),
                     render("Title", term) + glue + render("Title", term),
                     render("Snake", term) + " " + render("Snake", term + ["y"])]
            return rng.choice(forms), kind
        if kind == "trailing":
            base = render(rng.choice(["Snake", "Kebab", "Camel", "Pascal", "Dot", "Train"]),
                          self.words(rng.randrange(0, 2)) + term + self.words(rng.randrange(0, 2)))
            return base + "".join(rng.choice("-._") for _ in range(rng.randrange(1, 4))), kind
        if kind == "digits":
            base = render(rng.choice(["Snake", "Camel", "Pascal", "Kebab"]), term)
            return rng.choice([base + "2", "2" + base, base + "_2", "v2_" + base, base + "2x", "3" + base + "_x",
                               base + "_x9"]), kind
        if kind == "mixed_sep":
            ws = self.words(rng.randrange(0, 2)) + term + self.words(rng.randrange(1, 3))
            out = ws[0]
            for w in ws[1:]:
                out += rng.choice(["_", "-", ".", "_", "-"]) + rng.choice([w, w, cap(w), w.upper()])
            return out, kind
        if kind == "prefixed":
            return rng.choice(["_", "__", "-", ".", "$", "@", "#"]) + \
                render(rng.choice(["Snake", "Camel", "Pascal"]), term + self.words(rng.randrange(0, 2))), kind
        if kind == "plural":
            t2 = list(term); t2[-1] += "s"
            return render(st, self.words(rng.randrange(0, 2)) + t2), kind
        return rng.choice(WORDS + ["Hello", "World", "Hello World", "HELLO", "A", "Ab", "aB", "_", "__x", "x__",
                                   "a-b", "a.b", "A.B", "Ab Cd", "Ab  Cd2", "Ab Cd_e", "Ab Cd-e", "Ab Cd.Ef"]), kind

    def content(self, term):
        rng = self.rng
        nlines = rng.choice([1, 1, 2, 3, 4, 5, 6])
        out = ""
        tags = collections.Counter()
        for li in range(nlines):
            nfrag = rng.choice([0, 1, 1, 2, 2, 3, 4])
            if rng.random() < 0.3:
                out += rng.choice(["  ", "\t", "    ", "// ", "# ", "- "])
            for fi in range(nfrag):
                if fi > 0:
                    out += rng.choice(JOINTS)
                txt, tag = self.fragment(term)
                tags[tag] += 1
                out += txt
            if rng.random() < 0.2:
                out += rng.choice([";", " ", ".", "-", "_", "\t"])
            if li < nlines - 1 or rng.random() < 0.6:
                out += rng.choice(EOLS)
        return out, tags

    def small_random(self):
        rng = self.rng
        al = rng.choice(["aA_-. 1\n", "abAB_-.2 \t\n", "oldnameOLDNAME_-. \n", "aB \t\r\n\x0b\x0c.", "Ab c-._9\n"])
        return "".join(rng.choice(al) for _ in range(rng.randrange(0, 24)))

    def styles(self):
        rng = self.rng
        r = rng.random()
        if r < 0.30:
            return list(CLI_DEFAULT), "cli_default"
        if r < 0.45:
            return list(LIB_DEFAULT), "lib_default"
        if r < 0.65:
            return [rng.choice(ALL_STYLES)], "single"
        if r < 0.72:
            return list(ALL_STYLES), "all"
        if r < 0.80:
            return [s for s in CLI_DEFAULT if s != "Title"] + (["Dot"] if rng.random() < 0.5 else []), "cli_minus_title(+dot?)"
        if r < 0.88:
            return list(LIB_DEFAULT) + rng.choice([["Title"], ["Dot"], ["Title", "Dot"]]), "lib_plus_title/dot"
        if r < 0.90:
            return [], "empty"
        return rng.sample(ALL_STYLES, rng.randrange(2, 8)), "random_subset"


def hexs(s):
    return s.encode("latin-1").hex()


def run_rust(reqs):
    p = subprocess.run([HARNESS], input="\n".join(json.dumps(r) for r in reqs) + "\n",
                       capture_output=True, text=True, timeout=1200)
    outs = [json.loads(l) for l in p.stdout.splitlines() if l.strip()]
    if len(outs) != len(reqs):
        raise SystemExit("harness answered %d lines for %d requests\n%s" % (len(outs), len(reqs), p.stderr[-2000:]))
    return outs


def cb(b):
    if isinstance(b, str):
        b = b.encode("latin-1")
    return "[" + ";".join(str(x) for x in b) + "]"


def cn(n):
    return "%d%%nat" % n


COQ_HEAD = """From RN Require Import Base.Bytes Model.StyleDef Model.CaseModel Model.Matcher Model.Compound Model.Enhanced.
Open Scope N_scope.
Definition t3_eqb (a b : nat * nat * bytes) : bool :=
  let '(a1, a2, a3) := a in let '(b1, b2, b3) := b in Nat.eqb a1 b1 && Nat.eqb a2 b2 && beq a3 b3.
Definition em_eqb (a b : ematch) : bool :=
  Nat.eqb (e_line a) (e_line b) && Nat.eqb (e_col a) (e_col b) && Nat.eqb (e_start a) (e_start b)
  && Nat.eqb (e_end a) (e_end b) && beq (e_variant a) (e_variant b) && beq (e_text a) (e_text b).
Fixpoint l_eqb {A} (f : A -> A -> bool) (a b : list A) : bool :=
  match a, b with
  | [], [] => true
  | x :: a', y :: b' => f x y && l_eqb f a' b'
  | _, _ => false
  end.
Definition icase := (nat * bytes * list style * list (nat * nat * bytes))%type.
Definition irun (c : icase) : option (nat * list (nat * nat * bytes)) :=
  match c with (i, content, sts, expect) =>
    let got := find_all sts content in
    if l_eqb t3_eqb got expect then None else Some (i, got)
  end.
Definition ecase := (nat * bytes * bytes * bytes * list bytes * list style * option (list nat) * list ematch)%type.
Definition erun (c : ecase) : option (nat * list ematch) :=
  match c with (i, content, search, repl, keys, sts, extra, expect) =>
    let got := find_enhanced_matches content search repl keys sts extra in
    if l_eqb em_eqb got expect then None else Some (i, got)
  end.
(* coverage only: which branch of the overlap-resolution loop each candidate takes
   0 push | sel exact/cand compound: 1 contains,space,replace 2 contains,space,keep 3 contains,no space,replace
   4 not contained,keep | sel compound/cand exact: 5 contained,space&&!same_start,replace 6 contained,keep
   7 not contained,replace | same kind: 8 longer,replace 9 keep *)
Definition tag (pr : list (nat * nat)) (cand sel : ematch) : nat :=
  let ce := is_exact pr cand in let se := is_exact pr sel in
  let cl := (e_end cand - e_start cand)%nat in let sl := (e_end sel - e_start sel)%nat in
  let same := Nat.eqb (e_start cand) (e_start sel) in
  let ccs := Nat.leb (e_start cand) (e_start sel) && Nat.leb (e_end sel) (e_end cand) && Nat.ltb sl cl in
  let scc := Nat.leb (e_start sel) (e_start cand) && Nat.leb (e_end cand) (e_end sel) && Nat.ltb cl sl in
  if se && negb ce then
    if ccs then (if contains 32 (e_variant sel) then (if negb (contains 32 (e_variant cand)) && same then 1 else 2) else 3)
    else 4
  else if negb se && ce then
    if scc then (if contains 32 (e_variant cand) && negb same then 5 else 6) else 7
  else if Nat.ltb sl cl then 8 else 9.
Definition tags_of (c : ecase) : list nat :=
  match c with (i, content, search, repl, keys, sts, extra, expect) =>
    let exact := exact_matches keys search sts content in
    let pr := ranges_of exact in
    let all := sort_key (all_candidates content search repl keys sts extra) in
    snd (fold_left (fun (st : list ematch * list nat) cand =>
                      let (final, tags) := st in
                      (resolve_step pr final cand,
                       match find (overlaps cand) final with None => O | Some sel => tag pr cand sel end :: tags))
                   all ([], []))
  end.
Definition hist (l : list nat) : list nat := map (fun t => length (filter (Nat.eqb t) l)) (seq 0 10).
Definition ehist (cs : list ecase) : list nat := hist (flat_map tags_of cs).
Definition ihist (cs : list icase) : list nat := [].
Fixpoint bad {A B} (f : A -> option B) (cs : list A) : list B :=
  match cs with
  | [] => []
  | c :: cs' => match f c with Some r => r :: bad f cs' | None => bad f cs' end
  end.
"""


def coq_icase(i, case, rust):
    content, styles = case["content"], case["styles"]
    exp = ";".join("(%s,%s,%s)" % (cn(a), cn(b), cb(bytes.fromhex(h))) for a, b, h in rust["ok"])
    return "(%s, %s, [%s], [%s])" % (cn(i), cb(content), ";".join(styles), exp)


def coq_ecase(i, case, rust):
    exp = ";".join("mk_ematch %s %s %s %s %s %s" % (cn(l), cn(c), cn(s), cn(e), cb(bytes.fromhex(v)), cb(bytes.fromhex(t)))
                   for l, c, s, e, v, t in rust["ok"])
    keys = ";".join(cb(bytes.fromhex(k)) for k, _ in rust["table"])
    extra = "None" if case["lines"] is None else "(Some [%s])" % ";".join(cn(n) for n in case["lines"])
    return "(%s, %s, %s, %s, [%s], [%s], %s, [%s])" % (
        cn(i), cb(case["content"]), cb(case["search"]), cb(case["replace"]), keys,
        ";".join(case["styles"]), extra, exp)


def run_coq_batch(name, bi, idxs, cases, rust, mk, runner, ctype, keep):
    os.makedirs(WORK, exist_ok=True)
    path = os.path.join(WORK, "%s_%03d.v" % (name, bi))
    with open(path, "w") as f:
        f.write(COQ_HEAD)
        f.write("Definition cases : list %s := [\n" % ctype)
        f.write(";\n".join(mk(i, cases[i], rust[i]) for i in idxs))
        f.write("\n].\nEval vm_compute in (map fst (bad %s cases)).\nEval vm_compute in (%shist cases).\nEval vm_compute in (bad %s cases).\n" % (runner, runner[0], runner))
    t0 = time.time()
    p = subprocess.run(["coqc", "-Q", ROCQ, "RN", path], capture_output=True, text=True, timeout=3000)
    dt = time.time() - t0
    if p.returncode != 0:
        raise SystemExit("coqc failed on %s:\n%s" % (path, (p.stdout + p.stderr)[-3000:]))
    out = p.stdout
    first = out.split(": list nat")[0]
    clean = re.search(r"=\s*\[\s*\]\s*$", first.strip()) is not None
    bad_idx = [] if clean else [int(x) for x in re.findall(r"(\d+)%nat", first)]
    if not keep:
        base = path[:-2]
        for ext in (".v", ".vo", ".vok", ".vos", ".glob"):
            try:
                os.remove(base + ext)
            except OSError:
                pass
        try:
            os.remove(os.path.join(WORK, ".%s_%03d.aux" % (name, bi)))
        except OSError:
            pass
    parts = out.split(": list nat")
    if len(parts) > 2:
        for k, x in enumerate(re.findall(r"(\d+)%nat", parts[1])):
            HIST[k] += int(x)
    if clean:
        return [], out, dt
    if not bad_idx:
        raise SystemExit("could not parse coqc output:\n" + out[-3000:])
    return bad_idx, out, dt


HIST = collections.Counter()
TAGS = ["push(no overlap)", "selExact/candCompound contains+space -> replace", "selExact/candCompound contains+space -> keep",
        "selExact/candCompound contains,no space -> replace", "selExact/candCompound not contained -> keep",
        "selCompound/candExact contained,space&!same_start -> replace", "selCompound/candExact contained -> keep",
        "selCompound/candExact not contained -> replace", "same kind, longer -> replace", "same kind -> keep"]


def main():
    ap = argparse.ArgumentParser()
    ap.add_argument("--seed", type=int, default=11)
    ap.add_argument("--ident", type=int, default=3200)
    ap.add_argument("--enh", type=int, default=3200)
    ap.add_argument("--batch", type=int, default=400)
    ap.add_argument("--keep", action="store_true")
    ap.add_argument("--show", type=int, default=12)
    a = ap.parse_args()
    t0 = time.time()
    g = Gen(a.seed)
    rng = g.rng
    dist = collections.Counter()
    frag_tags = collections.Counter()

    # ------------------------------------------------------------ identifier cases
    icases = []
    fixed = ["", "a", "_", "-", ".", "foo-", "foo.", "foo_", "foo-.", "foo.-_", "-foo", ".foo", "2foo", "foo2",
             "a.b", "a..b", "a...b.", ".a.b.", "a.b-c.d", "a-.b", "Hello World2", "Hello World", "Hello  World\tAgain",
             "Hello\nWorld", "Hello\r\nWorld", "Hello\x0bWorld", "Hello\x0cWorld", "Hello World_x", "Hello World-x",
             "Hello World.x", "Hello World.Xy", "Hello-World", "Hello.World", "Hello_World", "HelloWorld", "Hello2",
             "A", "Ab", "AB", "Ab Cd Ef", "Ab Cd EF", "Ab Cd E", "Ab Cd Ef2 Gh", "Ab C", "Ab Cd.", "Ab Cd-", "Ab. Cd",
             "x Ab Cd y", "xAb Cd", "_Ab Cd", "-Ab Cd", "Old Name here", "The Old Name Thing", "a.old_name.b",
             "old_name..new_name", "0..old_name", "obj.method().call", "x.y.z.", "x-y-z-", "x-.y", "x.-y", "x--y", "x..y",
             "x._y", "x_.y", "a\tb", "a\x1cb", "a\x7fb", "a~b", "a@b.c", "a/b.c-d_e", "Ab\x0b\x0c Cd", "Ab \n\n Cd",
             "Ab Cd\n", "\nAb Cd", " Ab", "Ab ", "Ab  ", "Ab Cd Ef-", "Ab Cd Ef_", "Ab Cd Efg2", "Ab Cd ef", "Ab cd Ef"]
    for c in fixed:
        for sts, tag in [(CLI_DEFAULT, "cli_default"), (LIB_DEFAULT, "lib_default"), (["Dot"], "single"),
                         (["Title"], "single"), (["Title", "Dot"], "title+dot")]:
            icases.append({"content": c, "styles": list(sts), "tag": "fixed", "stag": tag})
    while len(icases) < a.ident:
        sts, stag = g.styles()
        if rng.random() < 0.35:
            c = g.small_random(); tag = "small_random"
        else:
            term, _ = rng.choice(TERMS)
            c, tags = g.content(term); tag = "structured"
            frag_tags.update(tags)
        icases.append({"content": c, "styles": sts, "tag": tag, "stag": stag})

    # ------------------------------------------------------------ enhanced cases
    ecases = []
    efixed = [("old name_x", "old_name", "new_name"), ("old_name old_name_y", "old_name", "new_name"),
              ("Old Name Old_Name", "old_name", "new_name"), ("Old Name here", "old_name", "new_name"),
              ("The Old Name Thing", "old_name", "new_name"), ("get_old_name_x getOldNameX old-name-x OLD_NAME_X", "old_name", "new_name"),
              ("a.old_name.b", "old_name", "new_name"), ("old_name..old_name_x", "old_name", "new_name"),
              ("x\nold_name\ny old_name_z\n\nold_name_w", "old_name", "new_name"),
              ("old_name_a\n\n\nx\nold_name\n", "old_name", "new_name"),
              ("my_old name_x", "old name", "new name"), ("my-Old Name-x", "old name", "new name"),
              ("", "old_name", "new_name"), ("", "-", "x"), ("\n", "-", "x"), ("foo foo_bar fooBar", "foo", "bar_baz"),
              ("FooBar foo", "foo", "baz"), ("Old Name Thing Old Name", "old_name", "new_name"),
              ("Old Name\nThing old_name", "old_name", "new_name"), ("foo foo.foo", "foo foo", "bar baz"),
              ("x.foo.foo foo", "foo foo", "bar baz"), ("foo.foo.foo foo", "foo foo", "bar baz"),
              ("a foo.foo.foo foo.foo b", "foo.foo", "bar.baz"), ("Foo Foo-Foo", "foo foo", "bar baz"), ("foo-foo foo.foo_foo", "foo_foo", "bar_baz"), ("old_name_x\r\nold_name\r\nx_old_name", "old_name", "new_name")]
    for (c, s, r) in efixed:
        for sts, tag in [(CLI_DEFAULT, "cli_default"), (LIB_DEFAULT, "lib_default"), (["Snake"], "single"),
                         (["Title"], "single"), (ALL_STYLES, "all")]:
            for lines in (None, [0, 1, 3]):
                ecases.append({"content": c, "search": s, "replace": r, "styles": list(sts), "plurals": False,
                               "lines": lines, "tag": "fixed", "stag": tag})
    while len(ecases) < a.enh:
        sts, stag = g.styles()
        term, repl = rng.choice(TERMS)
        sst = rng.choice(SEARCH_STYLES)
        search = render(sst, term)
        replace = render(sst if rng.random() < 0.8 else rng.choice(SEARCH_STYLES), repl)
        if rng.random() < 0.12:
            c = g.small_random(); tag = "small_random"
            if rng.random() < 0.7:
                search, replace = rng.choice([("a_b", "x_y"), ("ab", "xy"), ("a", "b"), ("old_name", "new_name"),
                                              ("aB", "xY"), ("A b", "X y")])
        else:
            c, tags = g.content(term); tag = "structured"
            frag_tags.update(tags)
        nl = c.count("\n") + 1
        r = rng.random()
        if r < 0.6:
            lines = None
        else:
            lines = sorted(set(rng.randrange(0, nl + 3) for _ in range(rng.randrange(0, 4))))
        ecases.append({"content": c, "search": search, "replace": replace, "styles": sts,
                       "plurals": rng.random() < 0.3, "lines": lines, "tag": tag, "stag": stag})

    for c in icases + ecases:
        assert all(ord(ch) < 128 for ch in c["content"])

    ireq = [{"op": "identifiers", "content": hexs(c["content"]), "styles": c["styles"]} for c in icases]
    ereq = []
    for c in ecases:
        r = {"op": "enhanced_matches", "content": hexs(c["content"]), "search": hexs(c["search"]),
             "replace": hexs(c["replace"]), "styles": c["styles"], "plurals": c["plurals"]}
        if c["lines"] is not None:
            r["lines"] = c["lines"]
        ereq.append(r)
    irust = run_rust(ireq)
    erust = run_rust(ereq)
    panics = 0
    for cs, rs in ((icases, irust), (ecases, erust)):
        for c, r in zip(cs, rs):
            if "ok" not in r:
                panics += 1
                print("RUST PANIC/ERROR on %r: %r" % (c, r))

    total_bad = 0
    coq_time = 0.0
    for name, cases, rust, mk, runner, ctype in (("ident", icases, irust, coq_icase, "irun", "icase"),
                                                 ("enh", ecases, erust, coq_ecase, "erun", "ecase")):
        ok_idx = [i for i in range(len(cases)) if "ok" in rust[i]]
        bads = []
        for bi, off in enumerate(range(0, len(ok_idx), a.batch)):
            idxs = ok_idx[off:off + a.batch]
            badl, out, dt = run_coq_batch(name, bi, idxs, cases, rust, mk, runner, ctype, a.keep)
            coq_time += dt
            if badl:
                bads.extend(badl)
                print("---- %s batch %d: raw model output for disagreeing cases ----" % (name, bi))
                print(out[-4000:])
        for i in bads[:a.show]:
            c = cases[i]
            print("DISAGREE %s #%d: %r\n   rust=%r" % (name, i, c, decode(rust[i])))
        total_bad += len(bads)
        print("%s: cases %d, disagreements %d" % (name, len(cases), len(bads)))

    # ------------------------------------------------------------ distribution
    def cnt(cs, key):
        return dict(sorted(collections.Counter(c[key] for c in cs).items()))
    print("identifier cases by kind      :", cnt(icases, "tag"))
    print("identifier cases by style list:", cnt(icases, "stag"))
    print("  with Title in styles: %d, with Dot in styles: %d" % (
        sum("Title" in c["styles"] for c in icases), sum("Dot" in c["styles"] for c in icases)))
    print("  identifiers returned by Rust: total %d, cases with none %d, containing a space %d, cases where a match was dot-split %d" % (
        sum(len(r["ok"]) for r in irust), sum(not r["ok"] for r in irust),
        sum(1 for r in irust for t in r["ok"] if b" " in bytes.fromhex(t[2])),
        sum(1 for c, r in zip(icases, irust) if "." in c["content"] and "Dot" not in c["styles"])))
    print("enhanced cases by kind        :", cnt(ecases, "tag"))
    print("enhanced cases by style list  :", cnt(ecases, "stag"))
    print("  with `lines`: %d, plurals: %d, CRLF: %d, no trailing newline: %d, multi-line: %d, empty lines: %d, tabs: %d" % (
        sum(c["lines"] is not None for c in ecases), sum(c["plurals"] for c in ecases),
        sum("\r\n" in c["content"] for c in ecases), sum(not c["content"].endswith("\n") for c in ecases),
        sum(c["content"].count("\n") > 1 for c in ecases), sum("\n\n" in c["content"] or "\n\r\n" in c["content"] for c in ecases),
        sum("\t" in c["content"] for c in ecases)))
    nm = [len(r["ok"]) for r in erust]
    exact = 0; compound = 0
    for c, r in zip(ecases, erust):
        keys = set(k for k, _ in r["table"])
        for m in r["ok"]:
            if m[4] == m[5] and m[4] in keys:
                exact += 1
            else:
                compound += 1
    print("  matches returned by Rust: total %d (exact %d, compound %d); cases with 0: %d, 1-3: %d, >3: %d; skip_exact (single word+single style) cases: %d" % (
        sum(nm), exact, compound, sum(n == 0 for n in nm), sum(1 <= n <= 3 for n in nm), sum(n > 3 for n in nm),
        sum(1 for c in ecases if len(c["styles"]) == 1 and not any(ch in c["search"] for ch in "_-. "))))
    print("overlap-resolution branches taken by the candidates (model side, all enhanced cases):")
    for k, t in enumerate(TAGS):
        print("    %-62s %d" % (t, HIST[k]))
    print("fragment kinds used in structured contents:", dict(sorted(frag_tags.items())))
    print("TOTAL: identifier cases %d, enhanced cases %d, rust panics %d, disagreements %d  (coqc %.0fs, total %.0fs)" % (
        len(icases), len(ecases), panics, total_bad, coq_time, time.time() - t0))
    sys.exit(0 if not panics and not total_bad else 1)


def decode(r):
    if "ok" not in r:
        return r
    out = []
    for t in r["ok"]:
        out.append(tuple(bytes.fromhex(x).decode("latin-1") if isinstance(x, str) else x for x in t))
    return out


if __name__ == "__main__":
    main()
