#!/usr/bin/env python3
"""tie_early_return.py — the one fact assumed about the coercion oracle, replayed on the real
coercion::apply_coercion (harness op apply_coercion):
   lower(strip "__" or "_" prefix of container) == lower(old)  ==>  apply_coercion(container, old, new) = None
ASCII inputs; also counts how often the real function answers Some when the premise fails (so the
test is not vacuous)."""
import json, random, subprocess, os, sys
ROOT = os.path.dirname(os.path.abspath(__file__))
p = subprocess.Popen([os.path.join(ROOT, "rn-harness")], stdin=subprocess.PIPE, stdout=subprocess.PIPE, text=True)
def call(o):
    p.stdin.write(json.dumps(o) + "\n"); p.stdin.flush(); return json.loads(p.stdout.readline())
hx = lambda s: s.encode().hex()
def strip_us(s): return s[2:] if s.startswith("__") else s[1:] if s.startswith("_") else s
rng = random.Random(5)
words = ["old", "name", "foo", "API", "Id", "x", "user", "V2", "get", ""]
seps = ["_", "-", "", " ", ".", "__"]
def ident():
    n = rng.randint(1, 4); ws = [rng.choice(words) for _ in range(n)]
    s = rng.choice(seps).join(rng.choice([w, w.upper(), w.capitalize(), w.lower()]) for w in ws)
    return rng.choice(["", "", "_", "__", "___"]) + s
def recase(s): return "".join(rng.choice([ch.lower(), ch.upper()]) for ch in s)
prem = viol = some_other = 0
for i in range(20000):
    old = ident(); new = ident()
    if rng.random() < 0.6:
        container = rng.choice(["", "_", "__"]) + recase(old)
    else:
        container = ident()
    r = call({"op": "apply_coercion", "container": hx(container), "old": hx(old), "new": hx(new)})["ok"]
    if strip_us(container).lower() == old.lower():
        prem += 1
        if r != "none": viol += 1; print("VIOLATION", repr(container), repr(old), repr(new), r)
    elif r != "none": some_other += 1
print("premise held in %d of 20000 calls, violations %d; Some in %d calls where the premise failed" % (prem, viol, some_other))
sys.exit(1 if viol else 0)
