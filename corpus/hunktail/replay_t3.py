#!/usr/bin/env python3
"""replay_t3.py — T3 (standalone_hunk_same_style) replayed on the real scanner (harness op scan_tree):
neutral multi-word terms, every visible style, delimiter contexts, coercion Auto and Off.
Also replays the witness for the first-occurrence hypothesis (shadowed_occurrence_context)."""
import json, os, random, subprocess, sys
ROOT = os.path.dirname(os.path.abspath(__file__))
p = subprocess.Popen([os.path.join(ROOT, "rn-harness")], stdin=subprocess.PIPE, stdout=subprocess.PIPE, text=True)
def call(o):
    p.stdin.write(json.dumps(o) + "\n"); p.stdin.flush(); return json.loads(p.stdout.readline())
hx = lambda s: s.encode().hex()
cap = lambda w: w[:1].upper() + w[1:]
def render(t, st):
    return {"Snake": "_".join(t), "Kebab": "-".join(t), "Camel": t[0] + "".join(map(cap, t[1:])),
            "Pascal": "".join(map(cap, t)), "ScreamingSnake": "_".join(w.upper() for w in t),
            "Title": " ".join(map(cap, t)), "Train": "-".join(map(cap, t)),
            "ScreamingTrain": "-".join(w.upper() for w in t), "Dot": ".".join(t),
            "Sentence": " ".join([cap(t[0])] + t[1:]), "LowerSentence": " ".join(t),
            "UpperSentence": " ".join(w.upper() for w in t)}[st]
VISIBLE = ["Snake", "Kebab", "Camel", "Pascal", "ScreamingSnake", "Title", "Train", "ScreamingTrain", "Dot",
           "Sentence", "LowerSentence", "UpperSentence"]
NEUTRAL = ["old", "name", "widget", "frame", "panel", "green", "stone", "river", "cloud", "marble", "tiger", "lemon"]
DELIMS = ' "\'()[]{}/:,;=<>\t'
rng = random.Random(11)
bad = 0; n = 0
for i in range(1500):
    sw = rng.sample(NEUTRAL, rng.choice([2, 2, 3])); rw = rng.sample(NEUTRAL, rng.choice([1, 2, 3, 4]))
    S0, S1, S = rng.choice(VISIBLE), rng.choice(VISIBLE), VISIBLE[i % 12]
    styles = list(set([S] + [s for s in VISIBLE if rng.random() < 0.6]))
    dl = "".join(rng.choice(DELIMS) for _ in range(rng.randint(0, 5)))
    dr = "".join(rng.choice(DELIMS) for _ in range(rng.randint(0, 5)))
    occ, new = render(sw, S), render(rw, S)
    c = dl + occ + dr
    r = call({"op": "scan_tree", "tree": [{"p": "a.txt", "k": "f", "c": hx(c), "m": 420}],
              "search": hx(render(sw, S0)), "replace": hx(render(rw, S1)),
              "options": {"styles": styles, "coerce": rng.choice(["auto", "off"]), "enable_plural_variants": False}})
    hs = r["plan"]["matches"]; n += 1
    ok = (len(hs) == 1 and hs[0]["content"] == occ and hs[0]["replace"] == new and hs[0]["start"] == len(dl)
          and hs[0]["end"] == len(dl) + len(occ) and hs[0]["line"] == 1 and hs[0]["byte_offset"] == len(dl)
          and hs[0]["line_before"] == c and hs[0]["line_after"] == dl + new + dr and not hs[0].get("coercion_applied"))
    if not ok:
        bad += 1; print("MISMATCH", repr(c), render(sw, S0), "->", render(rw, S1), S, hs)
print("T3 replay: %d standalone occurrences (12 visible styles, Auto/Off), mismatches %d" % (n, bad))
# the witness
DEFAULT = ["Snake", "Kebab", "Camel", "Pascal", "ScreamingSnake", "Train", "ScreamingTrain", "Title", "Sentence",
           "LowerSentence", "UpperSentence"]
for c in ["my_OldName OldName\n", "x OldName\n", "OldName my_OldName\n"]:
    for mode in ("auto", "off"):
        r = call({"op": "scan_tree", "tree": [{"p": "a.txt", "k": "f", "c": hx(c), "m": 420}],
                  "search": hx("old_name"), "replace": hx("new_name"), "options": {"styles": DEFAULT, "coerce": mode}})
        print(repr(c), mode, [(h["byte_offset"], h["content"], h["replace"], h["line_after"], h.get("coercion_applied")) for h in r["plan"]["matches"]])
sys.exit(1 if bad else 0)
